"""C11 Settings persist forward: cd, env (act / non-act), timeout, def -- history checker (D1, M2, M7).

A case is one generated test case: a *history* of setting instructions (env set / unset with -of act, -of !act or
neither; cd; timeout; def) distributed over [setup] / [before-assert] / [assert] / [cleanup], interleaved with probe
processes (`%`, `run`, `$`, or the PROGRAM of an `env N = -stdout-from PROGRAM` value), with one more probe as the
action.  Every probe writes what it was given (selected environment variables, cwd, argv) to a file outside the
sandbox; M2 records what was handed to the OS for the same process (full env, timeout, cwd).  Offline, the reference
state machine vf/models/settings.py is replayed over the history: the probe at position p must have observed the state
after the first p-1 instructions, the action the act set, every other process the non-act set.
"""
import itertools
import os

from vf import common, probe
from vf.models import settings as model

ID = 'C11'
LEVEL = 'exploration'
RULE = ('case = one generated test case holding a history of setting instructions (env set/unset with -of act, -of !act '
        'or neither, values with ${..} self-, cross- and unknown references; cd -rel-act/-rel-tmp/-rel-cd/default, '
        '-rel-result after act; '
        'timeout = n|none; def string / def path -rel-cd) distributed over setup/before-assert/assert/cleanup, with probe '
        'processes (%, run, $, program inside an env value, and the action) at the start of phases and after settings. '
        'Core: every history of length <= 2 over a 16-letter alphabet and of length 3 over a 5-letter alphabet, in every '
        'distribution over the four phases, a probe at the start of every phase and after every instruction; seeded: '
        'random histories of 4..10 settings. One evaluation = one probe position compared (probe record: env pool, cwd, '
        'argv; M2 record: full env, timeout, cwd) with the reference state after the preceding instructions. Class key = '
        '(where the probe ran, how it was started, kind of the most recent setting before it, whether that setting was '
        'made in the same or in which earlier phase); non-trivial = at least one setting precedes the probe.')
ASSUMPTIONS = [
    'the PHASE-SPEC meanings given by `help setup env` are taken to hold in the later phases too (the parser accepts '
    '-of there; `-of act` after the act phase must then have no observable effect, as DESIGN states)',
    'an env value taken from a PROGRAM is generated in [setup] only with an explicit -of act / -of !act, and in later '
    'phases only without PHASE-SPEC (the manual does not say how often / in which set the program runs when both sets '
    'are changed at once)',
    'the references expanded are those "in the value" as written (statement): text that only after substitution has '
    'the form ${..} (a substituted `$` followed by `{VC}`, a substituted value that itself reads `${VC}`) is not a '
    'reference of the value and stays literal (one pass, as os.path.expandvars); a few fixed histories and 2.5% of the '
    'random fragments produce such text; variable names are [A-Z]+ only',
    '`cd` is only generated into directories known to exist inside the sandbox (root, act, tmp, result and directories the '
    'prelude creates); failing cd is not part of this property',
    'timeout values of the histories are >= 30 s so that no probe (which returns at once) can expire; real expiry '
    'belongs to C19; the boundary value 0 is exercised apart (kind zero), decided by the M2 record only',
    'INTEGER of `timeout` is a plain decimal literal (expressions belong to C06/C18); string quoting is limited to '
    'naked / soft / hard without symbol references in env values (C09 owns string syntax)',
    'def: string symbols (literal, or concatenation with an earlier string symbol) and path symbols relative '
    '-rel-cd / default / -rel-act / -rel-tmp only; other types and reference restrictions belong to C08/C12',
    'the sandbox root is learnt from the M1 audit event tempfile.mkdtemp (cross-checked with the path --keep prints)',
]
EXHAUSTIVE_NOTE = ('all histories of length <= 2 over the 16-letter alphabet CORE_FULL and of length 3 over the 5-letter '
                   'alphabet CORE_L3, each in every order-preserving distribution over the four phases (4/10/20 ways), '
                   'are run in both tiers (histories whose cd would leave the known directories are dropped)')
MIN_OBS = {'quick': {'evaluations': 33000, 'classes': 600, 'c11.histories': 4500, 'c11.probe_records_compared': 33000,
                     'c11.m2_records_compared': 33000, 'c11.act_probes_compared': 4500,
                     'c11.probes_after_phase_boundary': 11000, 'c11.child_cd_probes': 12000,
                     'c11.env_value_from_program_probes': 700, 'c11.keep_sandbox_crosschecks': 350,
                     'c11.path_symbol_rel_cd_compared': 1500, 'c11.zero_timeout_m2_compared': 100},
           'thorough': {'evaluations': 300000, 'classes': 1100, 'c11.histories': 40000,
                        'c11.probe_records_compared': 300000, 'c11.m2_records_compared': 300000,
                        'c11.act_probes_compared': 40000, 'c11.probes_after_phase_boundary': 80000,
                        'c11.child_cd_probes': 80000, 'c11.env_value_from_program_probes': 15000,
                        'c11.keep_sandbox_crosschecks': 3000, 'c11.path_symbol_rel_cd_compared': 30000,
                        'c11.zero_timeout_m2_compared': 100}}
KNOWN = {}

PHASES = list(model.PHASES)
POOL = ['VA', 'VB', 'VC']          # VC is inherited from the environment Exactly runs in (value given by the case)
UNKNOWN = 'VX'                     # never set anywhere
RECORDED = POOL + [UNKNOWN]
TIMEOUTS = [30, 45, 60, 61, 75, 120, 600, 3600, None]
N_SEEDED = {'quick': 1500, 'thorough': 40000}


# =================================================================================================
# instruction constructors (JSON-able dicts)
# =================================================================================================
def i_set(of, name, text, q='soft'):
    return {'op': 'set', 'of': of, 'name': name, 'text': text, 'q': q, 'src': 'str'}


def i_setprog(of, name, text):
    return {'op': 'set', 'of': of, 'name': name, 'text': text, 'q': None, 'src': 'prog', 'ccd': None}


def i_unset(of, name):
    return {'op': 'unset', 'of': of, 'name': name}


def i_cd(rel, path):
    return {'op': 'cd', 'rel': rel, 'path': path}


def i_timeout(value):
    return {'op': 'timeout', 'value': value}


def i_probe(via, ccd=None):
    return {'op': 'probe', 'via': via, 'ccd': ccd}


# letters of the exhaustive core.  'envprog' letters and 'def' are templates completed per position.
CORE_FULL = [
    ('set', None, 'VA', 'a1', 'naked'),
    ('set', 'act', 'VA', '${VA}+', 'soft'),               # self reference, act set only
    ('set', '!act', 'VA', '${VA}-', 'hard'),              # self reference, non-act set only
    ('set', None, 'VB', '${VA}|${VX}${VC}', 'soft'),      # cross reference, unknown, inherited; each set against itself
    ('unset', None, 'VA'),
    ('unset', 'act', 'VA'),
    ('unset', '!act', 'VC'),                              # removes an inherited variable from the non-act set
    ('cd', 'tmp', 'a'),
    ('cd', None, 'a'),
    ('cd', 'cd', '..'),
    ('timeout', 45),
    ('timeout', None),
    ('defpath',),                                         # def path Pk = -rel-cd fk  (evaluated when referenced)
    ('envprog', 'non'),                                   # env [-of !act] VB = -stdout-from PROBE .. (prints "${VA}p")
    ('envprog', 'act'),                                   # env -of act VB = -stdout-from PROBE ..   (setup only)
    ('set', None, 'VA', '${VA}.', 'soft'),                # self reference, both sets, each against itself
]
# length 3: the three self-referencing appends make the value of VA in each set spell the history of changes applied
# to that set ('.' both, '+' act, '-' non-act), so any change applied to / expanded against the wrong set shows
CORE_L3 = [CORE_FULL[15], CORE_FULL[1], CORE_FULL[2], CORE_FULL[4], CORE_FULL[8]]
_VIAS = ['%', 'run', '$']


def _instantiate(letter, phase, k):
    """letter -> instruction dict, or None if the letter is not defined in this phase."""
    kind = letter[0]
    if kind == 'set':
        return i_set(letter[1], letter[2], letter[3], letter[4])
    if kind == 'unset':
        return i_unset(letter[1], letter[2])
    if kind == 'cd':
        return i_cd(letter[1], letter[2])
    if kind == 'timeout':
        return i_timeout(letter[1])
    if kind == 'defpath':
        return {'op': 'def', 'name': 'P%d' % k, 'parts': None, 'value': ['path', 'cd', 'f%d' % k]}
    if kind == 'envprog':
        if letter[1] == 'act':
            if phase != 'setup':
                return None
            return i_setprog('act', 'VB', '${VA}p')
        return i_setprog('!act' if phase == 'setup' else None, 'VB', '${VA}p')
    raise ValueError(letter)


def _distributions(n):
    """All non-decreasing assignments of n positions to the four phases."""
    return list(itertools.combinations_with_replacement(range(len(PHASES)), n))


def _cds_stay_known(items):
    m = model.Settings({}, '/S')
    for _, ins in items:
        if ins['op'] == 'cd':
            if not m.dir_exists(m.cd_target(ins['rel'], ins['path'])):
                return False
        if ins['op'] != 'def':
            m.apply(ins)
    return True


def _with_probes_everywhere(placed, n):
    """placed: [(phase, instr)] -> items with a probe at the start of every phase and after every instruction."""
    items = []
    j = n
    for ph in PHASES:
        items.append([ph, i_probe(_VIAS[j % 3], ccd=('/' if j % 4 == 1 else '..' if j % 4 == 3 else None))])
        j += 1
        for p, ins in placed:
            if p == ph:
                items.append([ph, ins])
                items.append([ph, i_probe(_VIAS[j % 3], ccd=('/' if j % 5 == 2 else None))])
                j += 1
    return items


def _core_cases():
    n = 0
    for length, alphabet in ((1, CORE_FULL), (2, CORE_FULL), (3, CORE_L3)):
        for word in itertools.product(range(len(alphabet)), repeat=length):
            for dist in _distributions(length):
                placed = []
                ok = True
                for k, (li, phi) in enumerate(zip(word, dist)):
                    ins = _instantiate(alphabet[li], PHASES[phi], k + 1)
                    if ins is None:
                        ok = False
                        break
                    placed.append((PHASES[phi], ins))
                if not ok or not _cds_stay_known(placed):
                    continue
                n += 1
                yield {'kind': 'core', 'n': n, 'mode': 'keep' if n % 11 == 0 else 'normal',
                       'initial': {'VC': 'c0'}, 'items': _number(_with_probes_everywhere(placed, n)),
                       'act': {'ccd': '/' if n % 3 == 0 else None, 'tr': n % 4 == 1}}


def _number(items):
    """Gives every process-starting item its probe id (p0, p1, ..) in execution order."""
    k = 0
    for _, ins in items:
        if ins['op'] == 'probe' or (ins['op'] == 'set' and ins['src'] == 'prog'):
            ins['id'] = 'p%d' % k
            k += 1
    return items


# -------------------------------------------------------------------------------------------------
# seeded histories
# -------------------------------------------------------------------------------------------------
_LITS = ['a', 'b1', 'x.y', 'p/q', '0', '_z', 'U-V', 'k k', '+', 'Zz9']


def _rnd_text(rng, name):
    frags = []
    for _ in range(rng.choice([0, 1, 1, 2, 2, 2, 3, 3, 4])):
        r = rng.random()
        if r < 0.40:
            frags.append(rng.choice(_LITS))
        elif r < 0.60:
            frags.append('${%s}' % name)                         # self reference
        elif r < 0.85:
            frags.append('${%s}' % rng.choice(POOL))             # cross (or self) reference
        elif r < 0.93:
            frags.append('${%s}' % UNKNOWN)                      # unknown -> empty string
        elif r < 0.95:
            frags.append('$' + rng.choice(POOL))                 # not of the form ${..}: literal
        elif r < 0.975:
            frags.append('{%s}' % rng.choice(POOL))              # literal; completes a reference if a `$` precedes it
        else:
            frags.append('$')
    return ''.join(frags)


def _rnd_quote(rng, text):
    if text == '' or ' ' in text:
        return rng.choice(['soft', 'hard'])
    return rng.choice(['naked', 'soft', 'hard'])


def _rnd_of(rng, phase):
    if phase == 'setup':
        return rng.choice([None, None, 'act', 'act', '!act', '!act'])
    return rng.choice([None, None, None, None, 'act', '!act'])


def _rnd_setting(rng, phase, m, ndefs):
    """One random setting instruction, valid in the state m (the generator's own replica of the reference state,
    used only to keep `cd` inside known directories and symbol names fresh)."""
    r = rng.random()
    if r < 0.34:
        name = rng.choice(POOL)
        text = _rnd_text(rng, name)
        return i_set(_rnd_of(rng, phase), name, text, _rnd_quote(rng, text))
    if r < 0.44:
        return i_unset(_rnd_of(rng, phase), rng.choice(POOL))
    if r < 0.54:
        name = rng.choice(POOL)
        of = rng.choice(['act', '!act']) if phase == 'setup' else None
        ins = i_setprog(of, name, _rnd_text(rng, name))
        ins['ccd'] = rng.choice([None, None, '/'])
        return ins
    if r < 0.74:
        cands = []
        for rel in ('act', 'tmp'):
            for p in ('.', 'a', 'a/a', 'a/a/a', 'b'):
                cands.append((rel, p))
        for rel in ('cd', None):
            for p in ('.', '..', 'a', 'b', '../b', '../a', '../..', 'a/a', '../tmp', '../act', '../result'):
                cands.append((rel, p))
        if phase != 'setup':
            cands.extend([('result', '.')] * 3)      # -rel-result is accepted by `cd` after the act phase
        rng.shuffle(cands)
        for rel, p in cands:
            t = m.cd_target(rel, p)
            if m.dir_exists(t):
                return i_cd(rel, p)
    if r < 0.88 or ndefs >= 4:
        return i_timeout(rng.choice(TIMEOUTS))
    k = ndefs + 1
    strings = [n for n, v in m.symbols if v[0] == 'string']
    if rng.random() < 0.4:
        parts = [['lit', rng.choice(['s', 'tt', 'u_1'])]]
        if strings and rng.random() < 0.5:
            parts.insert(rng.randrange(2), ['sym', rng.choice(strings)])
        return {'op': 'def', 'name': 'S%d' % k, 'parts': parts, 'value': None}
    return {'op': 'def', 'name': 'P%d' % k, 'parts': None,
            'value': ['path', rng.choice(['cd', 'cd', None, 'act', 'tmp']), 'f%d' % k]}


def _resolve_def(ins, m):
    """Completes a def instruction's model value (string symbols: references to earlier string symbols substituted)."""
    if ins['value'] is None:
        ins = dict(ins)
        ins['value'] = ['string', ''.join(t if k == 'lit' else m.symbol_value(t) for k, t in ins['parts'])]
    return ins


def _rnd_probe(rng):
    return i_probe(rng.choice(['%', '%', 'run', '$']), ccd=rng.choice([None, None, None, '/', '..']))


def _seeded_case(rng, n):
    length = rng.randrange(4, 11)
    phase_idx = sorted(rng.choice([0, 0, 1, 2, 3]) for _ in range(length))
    m = model.Settings({'VC': 'c'}, '/S')
    items = []
    ndefs = 0
    pos = 0
    for pi, ph in enumerate(PHASES):
        if rng.random() < 0.6:
            items.append([ph, _rnd_probe(rng)])
        while pos < length and phase_idx[pos] == pi:
            ins = _rnd_setting(rng, ph, m, ndefs)
            if ins['op'] == 'def':
                ndefs += 1
                ins = _resolve_def(ins, m)
            m.apply(ins)
            items.append([ph, ins])
            if rng.random() < 0.75:
                items.append([ph, _rnd_probe(rng)])
            pos += 1
    if not any(ins['op'] == 'probe' for _, ins in items):
        items.append(['cleanup', _rnd_probe(rng)])
    initial = {'VC': rng.choice(['c0', '', 'in it'])} if rng.random() < 0.8 else {}
    return {'kind': 'rnd', 'n': n, 'mode': 'keep' if rng.random() < 0.1 else 'normal', 'initial': initial,
            'items': _number(items), 'act': {'ccd': rng.choice([None, None, '/', '..']), 'tr': rng.random() < 0.3}}


_ZERO_VALUES = ['0', '1-1', "'0'", '00', '-0']
_ZERO_VIAS = [('run %', 'run'), ('%', '%'), ('$', '$'), ('env ZV = -stdout-from %', 'env-value'),
              ('file zf.txt = -stdout-from %', 'file-source')]


def _zero_cases():
    """The boundary value of the timeout: `timeout = 0` is a timeout like any other (it is in force for every later
    process: each is handed timeout 0 and, returning after 0 s at the earliest, expires), not "no timeout"."""
    n = 0
    for set_ph in ['setup', 'before-assert', 'assert', 'cleanup']:
        # set in [setup], the first later process of a later phase is the action itself
        later = ['same'] + (['act'] if set_ph == 'setup' else
                            [p for p in ['assert', 'cleanup'] if PHASES.index(p) > PHASES.index(set_ph)])
        for where in later:
            for pre in (None, '45', 'none'):
                for vi in range(len(_ZERO_VIAS)):
                    if where == 'act' and vi:
                        continue
                    if _ZERO_VIAS[vi][1] == 'file-source' and where == 'same' and set_ph == 'assert':
                        pass
                    yield {'kind': 'zero', 'n': n, 'set_phase': set_ph, 'where': where, 'pre': pre,
                           'value': _ZERO_VALUES[n % len(_ZERO_VALUES)], 'via': vi}
                    n += 1


def _rescan_cases():
    """Values whose expansion yields text that, together with what follows it (or alone), has the form of a
    reference: a value is expanded in one pass, substituted text is not expanded again."""
    words = [
        [('set', None, 'VA', '$', 'hard'), ('set', None, 'VB', '${VA}{VC}', 'soft'), ('set', None, 'VX', '${VB}', 'soft')],
        [('set', None, 'VA', '${', 'hard'), ('set', None, 'VB', '${VA}VC}', 'soft'), ('set', None, 'VX', '${VB}-${VB}', 'soft')],
        [('set', 'act', 'VA', '$', 'hard'), ('set', '!act', 'VA', '{', 'hard'), ('set', None, 'VB', '$${VA}{VC}', 'soft')],
        [('set', None, 'VA', '$', 'hard'), ('set', None, 'VB', '${VA}{VX}|${VA}{VC}', 'soft'), ('unset', None, 'VC')],
        [('set', None, 'VA', '$', 'naked'), ('set', None, 'VB', '{VC}', 'naked'), ('set', None, 'VX', '${VA}${VB}', 'soft')],
        [('set', '!act', 'VA', '$', 'hard'), ('envprog', 'non'), ('set', None, 'VX', '${VA}{VB}', 'soft')],
    ]
    n = 100000
    for w in words:
        for dist in ((0, 0, 0), (0, 1, 2), (0, 0, 3), (1, 2, 3), (2, 2, 2)):
            placed = []
            for k, (letter, phi) in enumerate(zip(w, dist)):
                ins = _instantiate(letter, PHASES[phi], k + 1)
                if ins is None:
                    placed = None
                    break
                placed.append((PHASES[phi], ins))
            if not placed:
                continue
            n += 1
            yield {'kind': 'core', 'n': n, 'mode': 'normal', 'initial': {'VC': 'c0'},
                   'items': _number(_with_probes_everywhere(placed, n)), 'act': {'ccd': None, 'tr': n % 3 == 2}}


def _empty_set_cases():
    """Exactly started with a minimal environment (one or two variables) that the case unsets completely, in the act
    set, the non-act set or both: a set that has become EMPTY is an empty environment, not "no environment given"."""
    n = 0
    for initial in ({'VC': 'c0'}, {'VC': 'c0', 'VA': 'a0'}, {'VA': ''}):
        for of in (None, 'act', '!act'):
            for ph in ('setup', 'before-assert'):
                if of == 'act' and ph != 'setup':
                    continue
                n += 1
                placed = [(ph, i_unset(of, name)) for name in sorted(initial)]
                yield {'kind': 'empty-set', 'n': n, 'mode': 'normal', 'initial': dict(initial), 'minimal_env': True,
                       'items': _number(_with_probes_everywhere(placed, n)), 'act': {'ccd': None, 'tr': n % 2 == 0}}


def cases(tier, seed):
    for c in _empty_set_cases():
        yield c
    for c in _core_cases():
        yield c
    for c in _rescan_cases():
        yield c
    for c in _zero_cases():
        yield c
    rng = common.rng_for(seed, ID, 'seeded')
    for n in range(N_SEEDED.get(tier, N_SEEDED['quick'])):
        yield _seeded_case(rng, n)


# =================================================================================================
# rendering
# =================================================================================================
def _quote(text, q):
    if q == 'naked':
        return text
    return '"%s"' % text if q == 'soft' else "'%s'" % text


def _of_opt(of):
    return '' if of is None else '-of %s ' % of


def _probe_words(pid, ccd, out_text, probe_path, out_file, sym_names):
    c = probe.ctrl(id=pid, env=RECORDED, cd=ccd, out=out_text)
    return ' '.join([probe_path, out_file, c] + ['@[%s]@' % n for n in sym_names])


def render_instr(ins, probe_path, out_file, sym_names):
    op = ins['op']
    if op == 'set':
        if ins['src'] == 'prog':
            return 'env %s%s = -stdout-from %s' % (_of_opt(ins['of']), ins['name'],
                                                   _probe_words(ins['id'], ins.get('ccd'), ins['text'], probe_path,
                                                                out_file, sym_names))
        return 'env %s%s = %s' % (_of_opt(ins['of']), ins['name'], _quote(ins['text'], ins['q']))
    if op == 'unset':
        return 'env %sunset %s' % (_of_opt(ins['of']), ins['name'])
    if op == 'cd':
        return 'cd %s%s' % ('' if ins['rel'] is None else '-rel-%s ' % ins['rel'], ins['path'])
    if op == 'timeout':
        return 'timeout = %s' % ('none' if ins['value'] is None else ins['value'])
    if op == 'def':
        if ins['parts'] is not None:
            return 'def string %s = %s' % (ins['name'], ''.join(t if k == 'lit' else '@[%s]@' % t
                                                                 for k, t in ins['parts']))
        _, rel, fn = ins['value']
        return 'def path %s = %s%s' % (ins['name'], '' if rel is None else '-rel-%s ' % rel, fn)
    if op == 'probe':
        words = _probe_words(ins['id'], ins.get('ccd'), None, probe_path, out_file, sym_names)
        return {'%': '% ', 'run': 'run ', '$': '$ '}[ins['via']] + words
    raise ValueError(op)


def render_case(case, probe_path, out_file):
    lines = []
    syms = []
    act_line = None
    for ph in PHASES:
        body = []
        if ph == 'setup':
            for top in ('act', 'tmp'):
                for d in model.PRELUDE_DIRS:
                    body.append('dir -rel-%s %s' % (top, d))
        for p, ins in case['items']:
            if p != ph:
                continue
            body.append(render_instr(ins, probe_path, out_file, syms))
            if ins['op'] == 'def':
                syms.append(ins['name'])
        if ph == 'setup':
            act_line = _probe_words('act', case['act'].get('ccd'), None, probe_path, out_file, syms)
            if case['act'].get('tr'):
                # the action given with a transformation of its output: the same process, the same environment
                act_line += '\n  -transformed-by ' + ('identity', 'char-case -to-upper', '( strip | identity )')[len(body) % 3]
        if body:
            lines.append('[%s]' % ph)
            lines.extend(body)
        if ph == 'setup':
            lines.append('[act]')
            lines.append(act_line)
    return '\n'.join(lines) + '\n'


# =================================================================================================
# the oracle: replay of the reference state machine
# =================================================================================================
def _kind_of(ins):
    op = ins['op']
    if op == 'set':
        refs = model.references_in(ins['text'])
        flavour = ('self' if ins['name'] in refs else 'cross' if any(r in POOL for r in refs) else
                   'unknown' if refs else 'plain')
        return '%s:%s:%s' % ('set' if ins['src'] == 'str' else 'set-from-program', ins['of'] or 'both', flavour)
    if op == 'unset':
        return 'unset:%s' % (ins['of'] or 'both')
    if op == 'cd':
        return 'cd:%s' % (ins['rel'] or 'default')
    if op == 'timeout':
        return 'timeout:%s' % ('none' if ins['value'] is None else 'n')
    if op == 'def':
        return 'def:%s' % ('string' if ins['value'][0] == 'string' else 'path-' + str(ins['value'][1] or 'default'))
    raise ValueError(op)


def expectations(case, environ, root):
    """-> list of dicts in expected execution order:
       {id, where, via, which, exp (model observation), last (kind of most recent setting | None),
        last_phase, crossed (a phase boundary lies between the last setting and this process), n_before}"""
    m = model.Settings(environ, root)
    exps = []
    last = [None, None]
    n_before = [0]
    act_done = [False]

    def note(pid, where, via, which, ccd):
        exps.append({'id': pid, 'where': where, 'via': via, 'which': which, 'exp': m.observe(which),
                     'last': last[0], 'last_phase': last[1], 'n_before': n_before[0], 'ccd': ccd,
                     'crossed': last[1] is not None and last[1] != where})

    def act():
        if not act_done[0]:
            act_done[0] = True
            note('act', 'act', 'action', model.ACT, case['act'].get('ccd'))

    for ph, ins in case['items']:
        if ph != 'setup':
            act()
        if ins['op'] == 'probe':
            note(ins['id'], ph, ins['via'], model.NON_ACT, ins.get('ccd'))
            continue
        if ins['op'] == 'set' and ins['src'] == 'prog':
            # the program of the value runs with the variables of the set being changed, before the change
            note(ins['id'], ph, 'env-value', model.ACT if ins['of'] == 'act' else model.NON_ACT, ins.get('ccd'))
        if ins['op'] == 'def':
            ins = _resolve_def(ins, m)
        m.apply(ins)
        last[0], last[1] = _kind_of(ins), ph
        n_before[0] += 1
    act()
    return exps


def _find_call(calls, pid):
    tok = 'id=%s,' % pid
    hits = []
    for c in calls:
        a = c['args']
        if isinstance(a, list):
            if any(isinstance(w, str) and w.startswith(tok) for w in a):
                hits.append(c)
        elif isinstance(a, str):
            if (' ' + tok) in a:
                hits.append(c)
    return hits


def _sandbox_root(r):
    roots = [e[1] for e in r.audit if e[0] == 'tempfile.mkdtemp' and isinstance(e[1], str)
             and os.path.basename(e[1]).startswith('exactly-')]
    return roots[0] if roots else None


def _run_zero(case, ctx):
    ses = ctx.get_session()
    d = ses.new_case_dir({})
    out_file = os.path.join(d, 'records')
    set_ph, where = case['set_phase'], case['where']
    prefix, via = _ZERO_VIAS[case['via']]
    body = {ph: [] for ph in PHASES}
    # a process before the change: still the earlier timeout
    body[set_ph].append('run %% %s %s %s' % (probe.PROBE, out_file, probe.ctrl(id='before', rc=0)))
    if case['pre'] is not None:
        body['setup'].insert(0, 'timeout = %s' % case['pre'])
    body[set_ph].append('timeout = %s' % case['value'])
    z = '%s %s %s' % (probe.PROBE, out_file, probe.ctrl(id='z', rc=0))
    if where == 'act':
        act_line = z
    else:
        act_line = '%s %s %s' % (probe.PROBE, out_file, probe.ctrl(id='act', rc=0))
        body[set_ph if where == 'same' else where].append('%s %s' % (prefix, z))
    lines = []
    for ph in PHASES:
        if body[ph]:
            lines += ['[%s]' % ph] + body[ph]
        if ph == 'setup':
            lines += ['[act]', act_line]
    text = '\n'.join(lines) + '\n'
    with open(os.path.join(d, 't.case'), 'w') as f:
        f.write(text)
    r = ses.run([os.path.join(d, 't.case')], cwd=d, mode='normal')
    viol, inconc = [], []
    short = text.replace(probe.PROBE, 'PROBE').replace(out_file, 'OUT')

    def bad(msg, **detail):
        detail['case_text'] = short
        detail['observed'] = r.brief()
        viol.append({'what': 'C11 timeout boundary: %s' % msg, 'detail': detail})

    evaluations = 0
    if r.timed_out:
        inconc.append('watchdog')
    elif r.exc is not None:
        bad('exception escaped MainProgram.execute')
    else:
        pre_exp = {None: 60, '45': 45, 'none': None}[case['pre']]
        if set_ph != 'setup' and case['pre'] is None:
            pre_exp = 60
        hb, hz = _find_call(r.calls, 'before'), _find_call(r.calls, 'z')
        # (`env` without -of in [setup] runs the program of the value once per set: up to two records)
        if len(hb) != 1 or not 1 <= len(hz) <= 2:
            bad('expected one process before and one after `timeout = %s`, M2 saw %d and %d (outcome %r)'
                % (case['value'], len(hb), len(hz), r.out[:40]))
        else:
            evaluations += 2
            ctx.count('c11.zero_timeout_m2_compared')
            if hb[0]['timeout'] != pre_exp:
                bad('the process before `timeout = %s` was started with timeout=%r, in force there: %r'
                    % (case['value'], hb[0]['timeout'], pre_exp))
            if any(h['timeout'] != 0 for h in hz):
                bad('the process after `timeout = %s` (%s in [%s], set in [%s]) was started with timeout=%r; the '
                    'timeout in force is 0 seconds' % (case['value'], via, where if where != 'same' else set_ph,
                                                      set_ph, [h['timeout'] for h in hz]))
        ident = r.out.split('\n', 1)[0]
        if (ident, r.rc) not in (('HARD_ERROR', 128), ('PASS', 0)):
            bad('outcome %r/%r: a process under a timeout of 0 s either expires (HARD_ERROR) or, if it has already '
                'ended when first waited for, completes (PASS)' % (ident, r.rc))
        elif ident == 'HARD_ERROR':
            ctx.count('c11.zero_timeout_expired')
    ses.clean_tmp()
    ses.drop(d)
    return {'classes': [('zero-timeout', set_ph, where, via, 'pre=%s' % case['pre'])], 'viol': viol,
            'inconclusive': inconc, 'evaluations': evaluations}


def run_case(case, ctx):
    if case['kind'] == 'zero':
        return _run_zero(case, ctx)
    ses = ctx.get_session()
    d = ses.new_case_dir({})
    out_file = os.path.join(d, 'records')
    text = render_case(case, probe.PROBE, out_file)
    with open(os.path.join(d, 't.case'), 'w', encoding='utf-8', newline='') as f:
        f.write(text)
    saved = {n: os.environ.get(n) for n in RECORDED}
    whole = dict(os.environ) if case.get('minimal_env') else None
    if whole is not None:
        os.environ.clear()  # Exactly is "started" with nothing but the variables of case['initial']
        ctx.count('c11.minimal_environment_runs')
    for n in RECORDED:
        os.environ.pop(n, None)
    os.environ.update(case['initial'])
    try:
        r = ses.run((['--keep'] if case['mode'] == 'keep' else []) + [os.path.join(d, 't.case')], cwd=d,
                    mode=case['mode'])
    finally:
        if whole is not None:
            os.environ.clear()
            os.environ.update(whole)
        for n, v in saved.items():
            if v is None:
                os.environ.pop(n, None)
            else:
                os.environ[n] = v
    records = probe.read_records(out_file)
    viol = []
    inconc = []
    classes = []
    evaluations = 0
    short = text.replace(probe.PROBE, 'PROBE').replace(out_file, 'OUT')

    def bad(msg, **detail):
        if len(viol) < 4:
            detail['case_text'] = short
            viol.append({'what': 'C11 %s' % msg, 'detail': detail})

    sample_rows = []
    root = None
    if r.timed_out:
        inconc.append('watchdog')
    elif r.exc is not None:
        bad('exception escaped MainProgram.execute', tag='exception', observed=r.brief())
    else:
        ident = (r.err if case['mode'] == 'keep' else r.out).split('\n', 1)[0]
        root = _sandbox_root(r)
        if case['mode'] == 'keep' and r.out.endswith('\n') and r.out.count('\n') == 1:
            kept = r.out[:-1]
            if root is not None:
                ctx.count('c11.keep_sandbox_crosschecks')
                if os.path.realpath(kept) != os.path.realpath(root):
                    bad('--keep prints %r but the sandbox was created as %r' % (kept, root), tag='keep-path')
            else:
                root = kept
        if r.rc != 0 or ident != 'PASS':
            bad('a history of valid setting instructions and probes must PASS, got rc=%r %r' % (r.rc, ident),
                tag='not-pass', observed=r.brief())
        if root is None:
            inconc.append('sandbox root not learnt (no mkdtemp audit event, no --keep path)')
    if root is not None and not viol:
        root = os.path.realpath(root)
        ctx.count('c11.histories')
        exps = expectations(case, r.env_before, root)
        got_ids = [rec['id'] for rec in records]
        want_ids = [e['id'] for e in exps]
        if got_ids != want_ids:
            bad('processes observed %r, expected exactly %r in this order' % (got_ids, want_ids), tag='records')
        else:
            for e, rec in zip(exps, records):
                evaluations += 1
                exp = e['exp']
                pos = '%s (%s, started via %s; %d settings before, last: %s in %s)' % (
                    e['id'], e['where'], e['via'], e['n_before'], e['last'], e['last_phase'])
                # ---- M7: what the process itself saw ------------------------------------------
                ctx.count('c11.probe_records_compared')
                exp_pool = {n: exp['env'].get(n) for n in RECORDED}
                if rec['env'] != exp_pool:
                    bad('%s set: probe %s saw environment %r, reference state says %r' % (
                        e['which'], pos, rec['env'], exp_pool), tag='env', probe=e['id'], which=e['which'],
                        where=e['where'], expected=exp_pool, observed=rec['env'])
                if rec['cwd'] != exp['cwd']:
                    bad('probe %s started in %r, reference state says %r' % (pos, rec['cwd'], exp['cwd']),
                        tag='cwd', probe=e['id'], where=e['where'], expected=exp['cwd'], observed=rec['cwd'])
                if rec['argv'] != exp['symbols']:
                    bad('probe %s got symbol values %r, reference state says %r' % (pos, rec['argv'], exp['symbols']),
                        tag='def', probe=e['id'], where=e['where'], expected=exp['symbols'], observed=rec['argv'])
                if any(v[0] == 'path' and v[1] in ('cd', None) for _, v in _symbols_before(case, e['id'])):
                    ctx.count('c11.path_symbol_rel_cd_compared')
                # ---- M2: what was handed to the OS for it -------------------------------------
                hits = _find_call(r.calls, e['id'])
                if len(hits) != 1:
                    bad('probe %s: %d subprocess.call records carry its id (expected 1)' % (pos, len(hits)),
                        tag='m2-count', probe=e['id'])
                else:
                    c = hits[0]
                    ctx.count('c11.m2_records_compared')
                    if c['timeout'] != exp['timeout']:
                        bad('process %s was started with timeout=%r, reference state says %r' % (
                            pos, c['timeout'], exp['timeout']), tag='timeout', probe=e['id'], where=e['where'],
                            expected=exp['timeout'], observed=c['timeout'])
                    eff = r.env_before if c['env'] is None else c['env']
                    if eff != exp['env']:
                        diff = {k: [exp['env'].get(k), eff.get(k)] for k in set(eff) | set(exp['env'])
                                if eff.get(k) != exp['env'].get(k)}
                        bad('%s set: process %s was handed an environment differing from the reference state in '
                            '{name: [expected, given]} %r' % (e['which'], pos, diff), tag='m2-env', probe=e['id'],
                            which=e['which'], where=e['where'], diff=diff)
                    if c['cwd'] != exp['cwd'] or c['cwd_kw'] not in (None, exp['cwd']):
                        bad('process %s was started from %r (cwd=%r), reference state says %r' % (
                            pos, c['cwd'], c['cwd_kw'], exp['cwd']), tag='m2-cwd', probe=e['id'], where=e['where'],
                            expected=exp['cwd'], observed=c['cwd'])
                # ---- bookkeeping --------------------------------------------------------------
                if e['where'] == 'act':
                    ctx.count('c11.act_probes_compared')
                if e['crossed']:
                    ctx.count('c11.probes_after_phase_boundary')
                if e['ccd']:
                    ctx.count('c11.child_cd_probes')
                if e['via'] == 'env-value':
                    ctx.count('c11.env_value_from_program_probes')
                if e['last'] is not None:
                    classes.append((e['where'], e['via'], e['last'],
                                    'same-phase' if not e['crossed'] else 'set-in-' + e['last_phase']))
                if len(sample_rows) < 10:
                    def some(env):
                        return {k: v for k, v in env.items() if v is not None}
                    sample_rows.append({'probe': '%s in [%s] via %s sees the %s set' % (e['id'], e['where'], e['via'],
                                                                                      e['which']),
                                        'expected': {'env': some(exp_pool), 'cwd': exp['cwd'].replace(root, '<SDS>'),
                                                     'timeout': exp['timeout'],
                                                     'argv': [s.replace(root, '<SDS>') for s in exp['symbols']]},
                                        'observed': {'env': some(rec['env']),
                                                     'cwd': rec['cwd'].replace(root, '<SDS>'),
                                                     'timeout': hits[0]['timeout'] if len(hits) == 1 else '?',
                                                     'argv': [s.replace(root, '<SDS>') for s in rec['argv']]}})
            # a process changing its own directory / Exactly changing directory must not leak to the caller
            if r.cwd_after != r.cwd_before:
                bad('cwd of the process running Exactly changed from %r to %r' % (r.cwd_before, r.cwd_after),
                    tag='outer-cwd')
            # the two sets are Exactly's own state: the environment Exactly itself runs in stays as it was
            if r.env_after != r.env_before:
                diff = {k: [r.env_before.get(k), r.env_after.get(k)] for k in set(r.env_before) | set(r.env_after)
                        if r.env_before.get(k) != r.env_after.get(k)}
                bad('environment of the process running Exactly changed {name: [before, after]}: %r' % diff,
                    tag='outer-env', diff=diff)
    ses.clean_tmp()
    ses.drop(d)
    res = {'classes': sorted(set(classes)), 'viol': viol, 'inconclusive': inconc, 'evaluations': evaluations}
    if sample_rows and ((case['kind'] == 'rnd' and case['n'] % 50 == 3) or
                        (case['kind'] == 'core' and case['n'] % 997 == 500)):
        res['sample'] = {'kind': case['kind'], 'mode': case['mode'], 'inherited': case['initial'],
                         'case_text': short, 'probes': sample_rows}
    return res


def _symbols_before(case, pid):
    """Symbol definitions (name, value) that precede the process with this id in execution order."""
    syms = []
    setup_syms = None
    for ph, ins in case['items']:
        if ph != 'setup' and setup_syms is None:
            setup_syms = list(syms)
        if ins.get('id') == pid:
            return syms
        if ins['op'] == 'def':
            syms.append((ins['name'], tuple(ins['value']) if ins['value'] else ('string',)))
    if pid == 'act':
        return setup_syms if setup_syms is not None else syms
    return syms
