"""C15 Directory trees: populating from a FILE-LIST and matching directory contents (D1, M1, M8).

Observations, all through the real CLI in process:
 * pop    : `dir P [= | +=] FILES-SOURCE` instructions in [setup], run with --keep; the kept sandbox is read back
            (snapshot_tree) and compared with the tree the reference model (vf/models/trees.py) says the list denotes,
            or HARD_ERROR where the model says so; M1 audit events and snapshots show nothing was created outside the
            populated directory; on success the populated tree is matched by generated assertions (round trip).
 * reject : FILE-NAMEs that are absolute or contain `..` must be rejected, and nothing may be created anywhere.
 * match  : `dir-contents P : [OPTS] FILES-MATCHER` / `exists [!] P : FILE-MATCHER` on trees (regular files,
            directories, symlinks to file / dir / nothing) written by the harness into the case's home directory; every
            assertion is emitted in the polarity the reference predicts, so the case must PASS; on anything else the
            case is bisected assertion by assertion.  HARD_ERROR predictions and one un-negated FAIL prediction per case
            are run as cases of their own.
"""
import hashlib
import itertools
import json
import os

from vf import common
from vf.models import trees as T

ID = 'C15'
LEVEL = 'exploration'
RULE = ('cases = (a) `dir` instruction sequences / FILE-LISTs (small-scope core: every ordered pair of 16 FILE-SPEC '
        'forms over the names a, a/b, every triple of 6 of them, rotated over four contexts (fresh dir, += on an '
        'existing dir, nested list, -rel-tmp), every ordered pair of 10 `dir` instruction forms, dir-contents-of; '
        'seeded: random lists of <= 5 specs with nesting, appends, clashes, dir-contents-of, followed by random '
        'matcher assertions on the result), (b) hostile FILE-NAMEs (absolute, `..`) x position x spec form, '
        '(c) matcher assertions on 4 fixed trees (every (min,max) in {none,0,1,2}^2, file-matcher pool x '
        'selection/prune/every/any x recursion options, prune x selection in both orders) and on seeded random trees '
        '(<= 7 nodes, depth <= 3, symlinks) with random matcher expressions of depth <= 3. '
        'Class key: pop = (outcome, broken existing-path rule, form of the deciding spec, nesting, context); '
        'reject = (defect, position, form, observed identifier); match = (instruction, recursion-option bucket, '
        'top-level matcher kind, next-level kind, expected verdict). A case is non-trivial when the real CLI returned '
        'and its verdict / the tree on disk was compared with the reference model.')
ASSUMPTIONS = [
    'oracle = vf/models/trees.py, written from `exactly help syntax FILES-SOURCE|FILES-MATCHER|FILE-MATCHER|'
    'FILES-CONDITION|GLOB-PATTERN`, `help setup dir`, `help assert dir-contents|exists`',
    'after a HARD_ERROR inside a FILE-LIST the entries listed before the failing one have been applied ("Files are '
    'created/modified in the order listed"); intermediate directories of the failing entry itself are tolerated',
    'not generated (manual silent): symlinks inside a populated directory; for symlinks inside a dir-contents-of '
    ' source no particular treatment is demanded, only uniformity over depth, faithful contents and an untouched source; '
    'FILE-NAMEs with `.`, empty components, '
    'trailing `/`, or `..` inside a component (a..b); symlink loops; absolute symlink targets; negative depths',
    'not judged (manual silent): whether a HARD_ERROR of a file-matcher inside every/any/-selection/-with-pruned/'
    'matches is reached when another file already decides the verdict (iteration order); `path GLOB` where the '
    'readings "wildcards stay inside a component", "wildcards cross /" (fnmatch) and "relative pattern matches the '
    'tail" disagree; REGEX not anchored at both ends (search vs. full match is not stated for file names); the error '
    'class for a dir-contents-of PATH that is not an existing directory (only "not PASS, nothing created" is demanded)',
    'rejection of a bad FILE-NAME may be SYNTAX_ERROR, VALIDATION_ERROR or HARD_ERROR (the manual says "must not")',
    'glob matching is case sensitive (Unix shell-style)',
    '`path ~ REGEX` patterns of the pools assume that no component of the scratch directory is named T, d0, d or sub',
    'operands of && / || that are not plain primitives are parenthesised by the renderer (grammar layout is C06)',
]
EXHAUSTIVE_NOTE = ('deterministic core (both tiers): all ordered pairs of the 16 FILE-SPEC forms and all triples of a '
                   '6-form sub-pool; all ordered pairs of 10 `dir` instruction forms; every (min,max) in '
                   '{none,0,1,2}^2 plus non-recursive on every directory of 4 fixed trees; the file-matcher pool x '
                   '{selection, prune, every, any} x 5 recursion options; prune pool x selection pool in both orders')
MIN_OBS = {
    'quick': {'evaluations': 2500, 'c15.tree_compared': 900, 'c15.audit_events_checked': 10000,
              'c15.verdicts_compared': 18000, 'c15.hard_error_predictions_run': 250,
              'c15.raw_fail_predictions_run': 600, 'c15.rejections_checked': 200, 'classes': 1000},
    'thorough': {'evaluations': 22000, 'c15.tree_compared': 5000, 'c15.audit_events_checked': 60000,
                 'c15.verdicts_compared': 100000, 'c15.hard_error_predictions_run': 2000,
                 'c15.raw_fail_predictions_run': 6000, 'c15.rejections_checked': 200, 'classes': 2000},
}
KNOWN = {}

ROOT = '/@ROOT@/h'  # placeholder for the absolute path of the case's home directory; itself a valid absolute path
REJECT_IDENTS = ('SYNTAX_ERROR', 'VALIDATION_ERROR', 'HARD_ERROR')

# =====================================================================================================
# fixed material
# =====================================================================================================
D, F, L = T.mk_dir, T.mk_file, T.mk_link


def fixed_trees():
    t1 = D({'f0.txt': F('F'),
            'd0': D({'x.tar.gz': F('X'), 'd1': D({'deep': F('')})}),
            'e0': D(),
            'lf': L('f0.txt'), 'ld': L('d0'), 'dang': L('nowhere')})
    t2 = D({'a': F('A'), '.x.y': F(''), 'f.': F('dot'), 'A.TXT': F('A'),
            'sub': D({'a.txt': F('A'), 'b.txt': F(''),
                      'sub': D({'a': F('deep'), 'c': D({'z.tar.gz': F('')})})})})
    t3 = D()
    t4 = D({'d': D({'d': D({'d': D({'f': F('bottom')}), 'l2': L('../../e')}), 'g': F('G')}),
            'e': D({'h': F('H')}),
            'l': L('d/d'), 'lf': L('d/g'), 'll': L('lf')})
    return [('t1', t1), ('t2', t2), ('t3', t3), ('t4', t4)]


HOME_SRC = {'src1': D({'a': F('A'), 's': D({'b': F('B'), 'e': D()})}),
            'src0': D(),
            'src2': D({'k': F('K')}),
            'afile': F('x')}

OPTS17 = [None] + [[lo, hi] for lo in (None, 0, 1, 2) for hi in (None, 0, 1, 2)]
OPTS5 = [None, [None, None], [1, None], [None, 1], [1, 1]]

FM_POOL = [
    ['type', 'file'], ['type', 'dir'], ['type', 'symlink'],
    ['not', ['type', 'dir']],
    ['and', [['type', 'dir'], ['not', ['type', 'symlink']]]],
    ['or', [['type', 'symlink'], ['type', 'dir']]],
    ['name', 'glob', '*'], ['name', 'glob', '*.txt'], ['name', 'glob', 'a*'], ['name', 'glob', '?'],
    ['name', 'glob', '[a-d]*'], ['name', 'glob', '[!a]*'], ['name', 'glob', '*.*'], ['name', 'glob', '.*'],
    ['name', 'glob', 'd?'], ['name', 'glob', '*.TXT'], ['name', 'glob', 'd'], ['name', 'glob', '*[0-9]'],
    ['name', 're', '^[a-d].*$'], ['name', 'rei', '^a\\.txt$'], ['name', 're', '^[^.]+$'],
    ['stem', 'glob', 'a'], ['stem', 'glob', ''], ['stem', 'glob', '[a-f]'], ['stem', 're', '^(a|x|f)$'],
    ['suffixes', 'glob', ''], ['suffixes', 'glob', '.tar.gz'], ['suffixes', 'glob', '.*'], ['suffixes', 'glob', '.'],
    ['suffixes', 're', '^(\\.[a-z]+)+$'],
    ['suffix', 'glob', ''], ['suffix', 'glob', '.gz'], ['suffix', 'glob', '.t?t'], ['suffix', 'glob', '.'],
    ['suffix', 'rei', '^\\.txt$'],
    ['path', 'glob', ROOT + '/T/*'], ['path', 'glob', ROOT + '/T/*/*'], ['path', 'glob', ROOT + '/T/d0/*'],
    ['path', 'glob', ROOT + '/T/?ub/[ab].txt'], ['path', 'glob', ROOT + '/T/l?/*'],
    ['path', 're', '^.*/T/[^/]+$'], ['path', 're', '^.*/(d0|sub|d)/[^/]*$'], ['path', 're', '^.*/ld?/.*$'],
    ['and', [['type', 'file'], ['contents', ['empty']]]],
    ['and', [['type', 'file'], ['contents', ['equals', 'A']]]],
    ['and', [['type', 'file'], ['not', ['contents', ['not', ['empty']]]]]],
    ['or', [['not', ['type', 'file']], ['contents', ['not', ['equals', 'A']]]]],
    ['and', [['type', 'dir'], ['dc', None, ['empty']]]],
    ['and', [['type', 'dir'], ['dc', [None, None], ['any', ['type', 'file']]]]],
    ['and', [['type', 'dir'], ['dc', [1, None], ['not', ['empty']]]]],
    ['and', [['type', 'dir'], ['dc', None, ['sel', ['type', 'file'], ['num', '>=', 1]]]]],
    ['or', [['not', ['type', 'dir']], ['dc', [None, 0], ['num', '<=', 2]]]],
    ['const', True], ['const', False],
]
PRUNE_POOL = [['name', 'glob', 'd0'], ['name', 'glob', 'sub'], ['type', 'symlink'], ['name', 'glob', 'd'],
              ['not', ['type', 'symlink']], ['dc', None, ['any', ['type', 'dir']]], ['const', True],
              ['name', 'glob', 'l*'], ['path', 're', '^.*/T/[^/]+/[^/]+$']]
SEL_POOL = [['type', 'file'], ['type', 'dir'], ['type', 'symlink'], ['name', 'glob', 'a*'], ['name', 'glob', 'd*'],
            ['suffix', 'glob', ''], ['not', ['type', 'dir']], ['name', 're', '^.*\\.(gz|txt)$']]

NAMES = ['a', 'b', 'c', 'a.txt', 'b.txt', 'x.tar.gz', '.x.y', 'f.', 'A.TXT', 'd0', 'd1', 'sub']
GLOBS = {
    'name': ['*', '*.txt', 'a*', '?', '??', '[a-c]*', '[!a]*', '*.*', '.*', '*.', '[.]*', '*.tar.gz', 'A.TXT', 'a.txt',
             '*.TXT', 'd?', '*[0-9]', 'sub', 'b', '[abc]', '?.*'],
    'stem': ['a', '', '*', 'x', '[a-f]', 'f', 'A', 'd?', '?'],
    'suffixes': ['', '.txt', '.tar.gz', '.*', '.', '*.gz', '.x.y', '.TXT', '.*.*'],
    'suffix': ['', '.txt', '.gz', '.', '.y', '.TXT', '.t?t', '.*', '.[a-z]*'],
}
REGEXES = {
    'name': ['^a.*$', '^.*\\.txt$', '^[a-c]$', '^d[0-9]$', '^\\..*$', '^[^.]+$', '^.*\\.TXT$', '^(a|b)(\\.txt)?$'],
    'stem': ['^[a-c]$', '^$', '^.+$', '^(x|f)$'],
    'suffixes': ['^$', '^\\.tar\\.gz$', '^(\\.[a-z]+)+$', '^\\.$'],
    'suffix': ['^$', '^\\.(gz|txt)$', '^\\.[A-Z]+$', '^\\.y?$'],
    'path': ['^.*/T/[^/]+$', '^.*/T/[^/]+/[^/]+$', '^.*/d0/.*$', '^.*/sub(/.*)?$', '^.*\\.txt$', '^/.*/T/.*/a$'],
}
TEXTS = ['', 'A', 'B', 'F']


# =====================================================================================================
# helpers shared by generator and runner
# =====================================================================================================
def subst_root(obj, root):
    return json.loads(json.dumps(obj).replace(ROOT, root))


def expected_of(world, a):
    comps = [c for c in a['p'].split('/') if c]
    if a['i'] == 'dc':
        return world.instr_dir_contents(comps, a.get('o'), a['m'])
    return world.instr_exists(comps, bool(a.get('neg')), a.get('m'))


def render_assert(a, flip=False):
    path_text = ((a.get('rel') + ' ') if a.get('rel') else '') + T.q(a['p'])
    if a['i'] == 'dc':
        m = ['not', a['m']] if flip else a['m']
        return T.render_dir_contents(path_text, a.get('o'), m)
    neg = bool(a.get('neg')) != flip
    return T.render_exists(path_text, neg, a.get('m'))


def opts_bucket(o):
    if o is None:
        return 'direct'
    return 'rec' + ('-min%s' % o[0] if o[0] is not None else '') + ('-max%s' % o[1] if o[1] is not None else '')


def assert_class(a, exp):
    m = a.get('m')
    top = m[0] if m else 'none'
    second = '-'
    if m is not None:
        if top in ('sel', 'prune'):
            second = m[2][0]
        elif top in ('not', 'every', 'any'):
            second = m[1][0]
        elif top in ('and', 'or'):
            second = m[1][0][0]
        elif top == 'matches':
            second = 'full' if m[1] else 'part'
        elif top == 'dc':
            second = opts_bucket(m[1])
        elif top in ('name', 'stem', 'suffix', 'suffixes', 'path'):
            second = m[1]
        elif top == 'type':
            second = m[1]
    ob = opts_bucket(a.get('o')) if a['i'] == 'dc' else ('neg' if a.get('neg') else 'pos')
    return (a['i'], ob, top, second, exp)


def all_dirs(tree, prefix):
    """paths (relative to the model root) of all real directories of `tree` mounted at prefix"""
    out = [prefix]
    for name, ch in sorted(tree['c'].items()):
        if ch['t'] == 'd':
            out.extend(all_dirs(ch, prefix + '/' + name))
    return out


def all_paths(world, top, max_depth=4):
    """every path reachable below `top` (following directory links), as strings relative to the model root"""
    fs = world.file_set([top], [None, max_depth], (), ())
    return [top + '/' + r for r, p in fs] if fs != T.UNDEF else []


# =====================================================================================================
# generator: matcher assertions
# =====================================================================================================
def exact_conditions(world, files, with_matchers):
    conds = []
    for r, p in files:
        fmx = None
        if with_matchers:
            n = T.resolve(world.fs, p, False)
            if n['t'] == 'l':
                fmx = ['type', 'symlink']
            elif n['t'] == 'd':
                fmx = ['type', 'dir']
            else:
                fmx = ['and', [['type', 'file'], ['contents', ['equals', n['s']]]]]
        conds.append([r, fmx])
    return conds


def set_probes(world, root, opts, prunes=(), sels=(), with_matchers=False, light=False):
    """Leaf FILES-MATCHERs derived from the model's own file set (exact count, exact set, set -1, set +1, subset)."""
    files = world.file_set([c for c in root.split('/')], opts, prunes, sels)
    if files == T.UNDEF:
        return []
    n = len(files)
    out = [['num', '==', n]]
    conds = exact_conditions(world, files, with_matchers)
    out.append(['matches', True, conds])
    if light:
        return out
    out.append(['empty'])
    out.append(['num', '!=', n])
    out.append(['numrange', n, n + 1])
    out.append(['num', '<', n])
    if n:
        deepest = max(range(n), key=lambda i: (files[i][0].count('/'), files[i][0]))
        out.append(['matches', True, conds[:deepest] + conds[deepest + 1:]])  # the set has one file more
        out.append(['matches', False, conds[:deepest] + conds[deepest + 1:]])
        out.append(['matches', False, [conds[0], conds[-1]]])
        out.append(['matches', False, [conds[-1], [conds[-1][0], ['not', ['type', 'symlink']]]]])
    out.append(['matches', True, conds + [['zz', None]]])
    out.append(['matches', False, conds[:1] + [['zz/y', None]]])
    return out


def wrap(m, prunes=(), sels=(), order=0):
    """order 0: prunes outermost; 1: selections outermost; 2: interleaved"""
    ws = [('prune', x) for x in prunes] + [('sel', x) for x in sels]
    if order == 1:
        ws = [('sel', x) for x in sels] + [('prune', x) for x in prunes]
    elif order == 2:
        ws = ws[::2] + ws[1::2]
    for kind, x in reversed(ws):
        m = [kind, x, m]
    return m


def core_match_cases():
    for tname, tree in fixed_trees():
        home = D({'T': tree})
        world = T.World(home, ROOT)
        asserts = []

        def add(i, p, m, o=None, neg=False, rel=None):
            a = {'i': i, 'p': p, 'm': m}
            if i == 'dc':
                a['o'] = o
                a['rel'] = '-rel-act-home'
            else:
                a['neg'] = neg
                a['rel'] = rel or ('-rel-home' if (len(asserts) % 2) else '-rel-act-home')
            asserts.append(a)

        roots = all_dirs(tree, 'T')
        link_roots = [p for p in all_paths(world, 'T', 1) if T.is_dir(world.fs, p.split('/'))
                      and T.resolve(world.fs, p.split('/'), False)['t'] == 'l']
        # F1: every depth window on every directory, model-derived exact probes
        for root in roots + link_roots:
            for o in OPTS17:
                for m in set_probes(world, root, o, with_matchers=(o in (None, [None, None], [1, 2]))):
                    add('dc', root, m, o)
        # F2: file-matcher pool
        for fmx in FM_POOL:
            for o in OPTS5:
                add('dc', 'T', ['every', fmx], o)
                add('dc', 'T', ['any', fmx], o)
                for m in set_probes(world, 'T', o, sels=(fmx,), light=True):
                    add('dc', 'T', ['sel', fmx, m], o)
                for m in set_probes(world, 'T', o, prunes=(fmx,), light=True):
                    add('dc', 'T', ['prune', fmx, m], o)
        # F3: prune x selection, both orders; double prune; double selection
        for o in ([None, None], [None, 1], [1, None], [1, 2]):
            for pm in PRUNE_POOL:
                for sm in SEL_POOL:
                    for order in (0, 1):
                        for m in set_probes(world, 'T', o, prunes=(pm,), sels=(sm,), light=True)[:1 + order]:
                            add('dc', 'T', wrap(m, (pm,), (sm,), order), o)
            for p1, p2 in itertools.combinations(PRUNE_POOL[:6], 2):
                for m in set_probes(world, 'T', o, prunes=(p1, p2), light=True)[:1]:
                    add('dc', 'T', wrap(m, (p1, p2)), o)
            for s1, s2 in itertools.combinations(SEL_POOL, 2):
                for m in set_probes(world, 'T', o, sels=(s1, s2), light=True)[:1]:
                    add('dc', 'T', wrap(m, (), (s1, s2)), o)
            for pm, s1, p2 in itertools.product(PRUNE_POOL[:3], SEL_POOL[:3], PRUNE_POOL[3:5]):
                for m in set_probes(world, 'T', o, prunes=(pm, p2), sels=(s1,), light=True)[:1]:
                    add('dc', 'T', ['prune', pm, ['sel', s1, ['prune', p2, m]]], o)
        # F4: exists on every path, a few absent ones
        paths = ['T'] + all_paths(world, 'T', 3)
        absent = ['T/nonex', 'T/nonex/x']
        for p in paths:
            node = T.resolve(world.fs, p.split('/'), True)
            if node is not None and node['t'] == 'f':
                absent.append(p + '/below-a-file')
        absent.append('T/dang/x')
        ex_pool = [None] + FM_POOL[:6] + [['name', 'glob', p.split('/')[-1]] for p in paths[:3]] + [
            ['path', 'glob', ROOT + '/' + p] for p in paths[1:4]] + [
            ['path', 'glob', ROOT + '/T/*'], ['path', 're', '^.*/T/[^/]+$'], ['stem', 'glob', '[a-f]*'],
            ['contents', ['equals', 'A']], ['contents', ['not', ['empty']]], ['dc', None, ['empty']],
            ['dc', [None, None], ['num', '>=', 2]],
            ['and', [['type', 'dir'], ['dc', [None, None], ['any', ['and', [['type', 'file'],
                                                                               ['contents', ['empty']]]]]]]],
            ['or', [['type', 'dir'], ['contents', ['empty']]]],
        ]
        for p in paths + absent:
            for j, fmx in enumerate(ex_pool):
                add('ex', p, fmx, neg=False)
                add('ex', p, fmx, neg=True)
        # F5: dir-contents on things that are not directories
        for p in paths + absent[:2]:
            if not T.is_dir(world.fs, p.split('/')):
                add('dc', p, ['empty'], None)
                add('dc', p, ['not', ['empty']], [None, None])
        # F6: nested dir-contents (own model, own options)
        for o in OPTS5:
            for o2 in OPTS5:
                for m in set_probes(world, 'T', o, light=True)[:1]:
                    inner = ['or', [['not', ['type', 'dir']], ['dc', o2, ['sel', ['type', 'file'], ['num', '<=', 1]]]]]
                    add('dc', 'T', ['and', [m, ['every', inner]]], o)
                    add('dc', 'T', ['sel', ['type', 'dir'], ['any', ['dc', o2, ['any', ['name', 'glob', '*.*']]]]], o)
        # F7: several conditions for one name are combined with &&, in order of appearance, lazily
        for name, ch in sorted(tree['c'].items()):
            other = 'file' if ch['t'] == 'd' else 'dir'
            opener = ['contents', ['empty']] if ch['t'] == 'd' else ['dc', None, ['empty']]
            if ch['t'] == 'l':
                continue
            add('dc', 'T', ['matches', False, [[name, ['type', other]], [name, opener]]])
            add('dc', 'T', ['matches', False, [[name, opener], [name, ['type', other]]]])
            add('dc', 'T', ['sel', ['name', 'glob', name],
                            ['matches', True, [[name, None], [name, ['not', ['type', other]]], [name, opener]]]])
            add('dc', 'T', ['sel', ['name', 'glob', name],
                            ['matches', True, [[name, None], [name, ['not', ['type', other]]],
                                               [name, ['const', True]], [name, ['not', ['type', 'symlink']]]]]])
        for i in range(0, len(asserts), 40):
            yield {'kind': 'match', 'tree': tree, 'tname': tname, 'asserts': asserts[i:i + 40]}


# ---- seeded: random trees and matchers ---------------------------------------------------------------------
def gen_tree(rng, max_nodes=7, max_depth=3):
    root = D()
    dirs = [([], root)]
    links = []
    everything = []
    for _ in range(rng.randint(0, max_nodes)):
        path, parent = dirs[rng.randrange(len(dirs))]
        free = [n for n in NAMES if n not in parent['c']]
        if not free:
            continue
        name = rng.choice(free)
        kind = rng.choices(['f', 'd', 'l'], [5, 4, 2])[0]
        if kind == 'd' and len(path) < max_depth:
            node = D()
            dirs.append((path + [name], node))
        elif kind == 'l':
            node = L('nowhere')
            links.append((path, name, node))
        else:
            node = F(rng.choice(TEXTS))
        parent['c'][name] = node
        everything.append(path + [name])
    for path, name, node in links:
        cands = [p for p in everything if p != path + [name]]
        if cands and rng.random() < 0.8:
            tgt = rng.choice(cands)
            c = 0
            while c < len(path) and c < len(tgt) and path[c] == tgt[c]:
                c += 1
            node['to'] = '/'.join(['..'] * (len(path) - c) + tgt[c:])
            if node['to'] == '' or T.has_link_loop(root):
                node['to'] = 'nowhere'
    if T.has_link_loop(root):
        for path, name, node in links:
            node['to'] = 'nowhere'
    return root


def gen_pattern_fm(rng, paths):
    part = rng.choice(['name', 'name', 'name', 'stem', 'suffix', 'suffixes', 'path'])
    if part == 'path':
        if rng.random() < 0.5 and paths:
            comps = rng.choice(paths).split('/')
            for i in range(1, len(comps)):
                if rng.random() < 0.4:
                    comps[i] = rng.choice(['*', '?' * len(comps[i]), comps[i][:1] + '*', '[a-z]*'])
            if rng.random() < 0.15:
                comps = comps[:-1]
            return ['path', 'glob', ROOT + '/' + '/'.join(comps)]
        return ['path', 're', rng.choice(REGEXES['path'])]
    if rng.random() < 0.7:
        pool = list(GLOBS[part])
        if part == 'name' and paths:
            pool += [p.split('/')[-1] for p in paths]
        return [part, 'glob', rng.choice(pool)]
    return [part, rng.choice(['re', 're', 'rei']), rng.choice(REGEXES[part])]


def gen_tm(rng):
    r = rng.random()
    if r < 0.5:
        return ['equals', rng.choice(TEXTS)]
    if r < 0.8:
        return ['empty']
    return ['not', gen_tm(rng)]


def gen_fm(rng, depth, paths):
    r = rng.random()
    if depth <= 0 or r < 0.35:
        r2 = rng.random()
        if r2 < 0.35:
            return ['type', rng.choice(['file', 'dir', 'symlink'])]
        if r2 < 0.85:
            return gen_pattern_fm(rng, paths)
        if r2 < 0.92:
            return ['contents', gen_tm(rng)]
        return ['const', rng.random() < 0.5]
    if r < 0.45:
        return ['not', gen_fm(rng, depth - 1, paths)]
    if r < 0.58:
        return [rng.choice(['and', 'or']), [gen_fm(rng, depth - 1, paths) for _ in range(rng.randint(2, 3))]]
    if r < 0.72:
        return ['and', [['type', 'file'], ['contents', gen_tm(rng)]]]
    if r < 0.80:
        return ['or', [['not', ['type', 'file']], ['contents', gen_tm(rng)]]]
    if r < 0.94:
        return ['and', [['type', 'dir'], ['dc', gen_opts(rng), gen_fsm(rng, depth - 1, paths, None)]]]
    return ['dc', gen_opts(rng), gen_fsm(rng, depth - 1, paths, None)]


def gen_opts(rng):
    if rng.random() < 0.35:
        return None
    return [rng.choice([None, None, 0, 1, 2]), rng.choice([None, None, 0, 1, 2])]


def gen_leaf_fsm(rng, paths, rels):
    r = rng.random()
    if r < 0.15:
        return ['empty']
    if r < 0.45:
        return ['num', rng.choice(['==', '!=', '<', '<=', '>', '>=']), rng.randint(0, 5)]
    if r < 0.52:
        lo = rng.randint(0, 3)
        return ['numrange', lo, lo + rng.randint(0, 3)]
    if r < 0.95:
        pool = list(rels or []) + ['zz']
        conds = []
        for _ in range(rng.randint(0, 3)):
            conds.append([rng.choice(pool), gen_fm(rng, 1, paths) if rng.random() < 0.5 else None])
        return ['matches', rng.random() < 0.5, conds]
    return ['const', rng.random() < 0.5]


def gen_fsm(rng, depth, paths, rels):
    r = rng.random()
    if depth <= 0 or r < 0.3:
        return gen_leaf_fsm(rng, paths, rels)
    if r < 0.5:
        return [rng.choice(['every', 'any']), gen_fm(rng, depth - 1, paths)]
    if r < 0.66:
        return ['sel', gen_fm(rng, depth - 1, paths), gen_fsm(rng, depth - 1, paths, rels)]
    if r < 0.8:
        return ['prune', gen_prune_fm(rng, paths), gen_fsm(rng, depth - 1, paths, rels)]
    if r < 0.88:
        return ['not', gen_fsm(rng, depth - 1, paths, rels)]
    return [rng.choice(['and', 'or']), [gen_fsm(rng, depth - 1, paths, rels) for _ in range(rng.randint(2, 3))]]


def gen_prune_fm(rng, paths):
    r = rng.random()
    if r < 0.5:
        return gen_pattern_fm(rng, paths)
    if r < 0.65:
        return ['type', 'symlink']
    if r < 0.8:
        return ['not', gen_pattern_fm(rng, paths)]
    if r < 0.9:
        return ['dc', None, gen_leaf_fsm(rng, paths, None)]
    return rng.choice(PRUNE_POOL)


def gen_targeted(rng, world, root, paths):
    """wrappers first, then a leaf derived from the model's own file set"""
    o = gen_opts(rng)
    prunes = tuple(gen_prune_fm(rng, paths) for _ in range(rng.choice([0, 0, 1, 1, 2])))
    sels = tuple(gen_fm(rng, 1, paths) for _ in range(rng.choice([0, 0, 1, 1, 2])))
    probes = set_probes(world, root, o, prunes, sels, with_matchers=rng.random() < 0.3)
    if not probes:
        return None
    m = rng.choice(probes)
    if rng.random() < 0.25:
        files = world.file_set(root.split('/'), o, prunes, sels)
        if files != T.UNDEF:
            fmx = gen_fm(rng, 1, paths)
            m = [rng.choice(['every', 'any']), fmx]
    return {'i': 'dc', 'p': root, 'o': o, 'm': wrap(m, prunes, sels, rng.randrange(3))}


def gen_asserts(rng, world, top, n, rel_dc, rel_ex, allow_path_glob=True):
    """n assertions with defined expectation on the tree mounted at `top` of world"""
    paths = all_paths(world, top, 3)
    dir_paths = [top] + [p for p in paths if T.is_dir(world.fs, p.split('/'))]
    out = []
    n_hard = 0
    tries = 0
    while len(out) < n and tries < n * 12:
        tries += 1
        r = rng.random()
        if r < 0.45:
            a = gen_targeted(rng, world, rng.choice(dir_paths), paths)
            if a is None:
                continue
        elif r < 0.75:
            root = rng.choice(dir_paths if rng.random() < 0.93 or not paths else paths)
            rels = [p[len(root) + 1:] for p in paths if p.startswith(root + '/')]
            a = {'i': 'dc', 'p': root, 'o': gen_opts(rng), 'm': gen_fsm(rng, 3, paths, rels)}
        else:
            cands = paths + [top, top + '/nonex']
            if paths:
                cands.append(rng.choice(paths) + '/zz')
            a = {'i': 'ex', 'p': rng.choice(cands), 'neg': rng.random() < 0.4,
                 'm': gen_fm(rng, 2, paths) if rng.random() < 0.85 else None}
        if not allow_path_glob and (ROOT in json.dumps(a)):
            continue
        a['rel'] = rel_dc if a['i'] == 'dc' else rng.choice(rel_ex)
        try:
            exp = expected_of(world, a)
        except T.Undefined:
            continue
        if exp == T.UNDEF:
            continue
        if exp == 'HARD_ERROR':
            if n_hard >= 2:
                continue
            n_hard += 1
        out.append(a)
    return out


def seeded_match_cases(rng, n):
    for _ in range(n):
        tree = gen_tree(rng)
        home = D({'T': tree})
        asserts = gen_asserts(rng, T.World(home, ROOT), 'T', 14, '-rel-act-home', ['-rel-home', '-rel-act-home'])
        yield {'kind': 'match', 'tree': tree, 'tname': 'rnd', 'asserts': asserts}


# =====================================================================================================
# generator: populate
# =====================================================================================================
def spec_pool(names):
    out = []
    for n in names:
        out += [['file', n, None], ['file', n, ['=', 'T']], ['file', n, ['+=', 'U']],
                ['dir', n, None], ['dir', n, ['=', ['list', []]]],
                ['dir', n, ['=', ['list', [['file', 'b', ['=', 'N']]]]]],
                ['dir', n, ['+=', ['list', [['file', 'b', None]]]]], ['dir', n, ['+=', ['list', []]]]]
    return out


def in_context(specs, ctx):
    """-> list of `dir` instructions [REL, PATH, MOD]"""
    if ctx == 0:
        return [[None, 'd', ['=', ['list', specs]]]]
    if ctx == 1:
        return [[None, 'd', None], [None, 'd', ['+=', ['list', specs]]]]
    if ctx == 2:
        return [['-rel-act', 'top', ['=', ['list', [['dir', 'mid/d', ['=', ['list', specs]]]]]]]]
    if ctx == 3:
        return [['-rel-tmp', 'x/d', ['=', ['list', specs]]]]
    raise ValueError(ctx)


def pop_case(instrs, rng=None, tag='core', n_asserts=0):
    """Builds the case descriptor (or None where the manual leaves the outcome open)."""
    home = D(HOME_SRC)
    try:
        sb, failure = T.run_dir_instructions(json.loads(json.dumps(instrs)), home)
    except T.Undefined:
        return None
    case = {'kind': 'pop', 'instrs': instrs, 'tag': tag, 'asserts': []}
    if failure is None:
        asserts = []
        for area in ('act', 'tmp'):
            world = T.World(sb[area], '/SANDBOX/' + area)
            rels = ['', '-rel-act', '-rel-cd'] if area == 'act' else ['-rel-tmp']
            for name in sorted(sb[area]['c']):
                files = world.file_set([name], [None, None], (), ())
                new = [{'i': 'dc', 'p': name, 'o': [None, None], 'rel': rels[0],
                        'm': ['matches', True, exact_conditions(world, files, True)]}]
                if rng is not None and n_asserts:
                    new += gen_asserts(rng, world, name, n_asserts, rng.choice(rels), rels, allow_path_glob=False)
                for a in new:
                    a['area'] = area
                asserts += new
        case['asserts'] = asserts
    return case


def core_pop_cases():
    pool = spec_pool(['a', 'a/b'])
    i = 0
    for s in pool:
        for ctx in (0, 1, 2, 3):
            yield pop_case(in_context([s], ctx))
    for s1, s2 in itertools.product(pool, pool):
        yield pop_case(in_context([s1, s2], i % 3))
        i += 1
    small = [s for k, s in enumerate(pool) if k in (0, 2, 3, 6, 8, 13)]
    for s1, s2, s3 in itertools.product(small, small, small):
        yield pop_case(in_context([s1, s2, s3], i % 4))
        i += 1
    # the `dir` instruction itself: all ordered pairs of 10 forms
    forms = []
    for rel, p in ((None, 'p'), ('-rel-cd', 'p/q')):
        forms += [[rel, p, None], [rel, p, ['=', ['list', []]]], [rel, p, ['=', ['list', [['file', 'x', None]]]]],
                  [rel, p, ['+=', ['list', [['file', 'x', ['=', '1']]]]]], [rel, p, ['+=', ['list', []]]]]
    for f in forms:
        yield pop_case([f])
    for f1, f2 in itertools.product(forms, forms):
        yield pop_case([f1, f2])
    # deeper nesting, order dependence, appends through several levels
    yield pop_case([[None, 'd', ['=', ['list', [
        ['file', 'n/m/o', ['=', '1']], ['file', 'n/m/o', ['+=', '2']],
        ['dir', 'n', ['+=', ['list', [['file', 'm/o', ['+=', '3']], ['dir', 'm', ['+=', ['list', [['file', 'p', None]]]]]]]]],
        ['dir', 'q/r/s', ['=', ['list', [['dir', 't', ['=', ['list', [['file', 'u', ['=', 'deep']]]]]]]]]],
    ]]]]])
    yield pop_case([[None, 'd', ['=', ['list', [['dir', 'n', None], ['dir', 'n', ['=', ['list', []]]]]]]]])
    yield pop_case([[None, 'd', ['=', ['list', [['file', 'x', ['=', 'A']], ['file', 'y', ['=', 'B']],
                                                 ['file', 'x', ['+=', 'C']], ['file', 'y', ['+=', 'D']],
                                                 ['file', 'x', ['+=', 'E']]]]]]])
    # dir-contents-of
    cp = lambda name, rel='home': ['copy', rel, name]
    for instrs in (
            [[None, 'd', ['=', cp('src1')]]],
            [[None, 'd', ['=', cp('src0')]]],
            [[None, 'd', ['=', cp('src1/s')]]],
            [[None, 'd', None], [None, 'd', ['+=', cp('src1')]]],
            [[None, 'd', ['=', ['list', [['file', 'other', None]]]]], [None, 'd', ['+=', cp('src1')]],
             [None, 'd', ['+=', cp('src2')]]],
            [[None, 'd', ['=', ['list', [['dir', 's', ['=', cp('src1')]], ['dir', 's', ['+=', cp('src2')]],
                                         ['file', 's/a', ['+=', '+']], ['dir', 's/s', ['+=', ['list', [
                                             ['file', 'b', ['+=', '+']], ['file', 'new', None]]]]]]]]]],
            [[None, 'e', ['=', ['list', [['file', 'x/y', ['=', 'Y']]]]]], [None, 'd', ['=', cp('e', 'act')]]],
            [[None, 'd', ['=', cp('src1')]], [None, 'd', ['=', cp('src2')]]],
            [[None, 'd', ['+=', cp('src1')]]],
            [[None, 'd', ['=', ['list', [['file', 's', None], ['dir', 's', ['+=', cp('src2')]]]]]]],
            [['-rel-tmp', 'd/e', ['=', cp('src1')]]],
    ):
        yield pop_case(instrs)


def gen_specs(rng, depth, used):
    specs = []
    for _ in range(rng.randint(1, 5 if depth == 0 else 3)):
        if used and rng.random() < 0.55:
            name = rng.choice(used)
            if rng.random() < 0.3:
                name += '/' + rng.choice(['a', 'b', 'c.txt'])
        else:
            name = rng.choice(['a', 'b', 'c.txt', 'd0', 'a/b', 'a/b/c', 'd0/x', 'b/a', 's'])
        used.append(name)
        r = rng.random()
        if r < 0.45:
            mod = rng.choice([None, ['=', rng.choice(['T', 'some text', ''])], ['+=', rng.choice(['U', '+', ''])]])
            specs.append(['file', name, mod])
        else:
            r2 = rng.random()
            if r2 < 0.25:
                mod = None
            else:
                op = '=' if rng.random() < 0.55 else '+='
                if rng.random() < 0.15:
                    src = ['copy', 'home', rng.choice(['src1', 'src0', 'src2', 'src1/s'])]
                elif depth < 2:
                    src = ['list', gen_specs(rng, depth + 1, [] if rng.random() < 0.5 else ['a', 'b'])
                           if rng.random() < 0.85 else []]
                else:
                    src = ['list', []]
                mod = [op, src]
            specs.append(['dir', name, mod])
    return specs


def seeded_pop_cases(rng, n):
    made = 0
    while made < n:
        ctx = rng.randrange(4)
        if rng.random() < 0.25:
            instrs = in_context(gen_specs(rng, 0, []), 0) + [
                [None, rng.choice(['d', 'd/a', 'd/new', 'e']),
                 rng.choice([None, ['=', ['list', gen_specs(rng, 1, [])]], ['+=', ['list', gen_specs(rng, 1, ['a'])]]])]]
        else:
            instrs = in_context(gen_specs(rng, 0, []), ctx)
        case = pop_case(instrs, rng, 'rnd', n_asserts=4)
        if case is None:
            continue
        made += 1
        yield case


BAD_NAMES = [('dotdot', '../x'), ('dotdot', '..'), ('dotdot', 'a/..'), ('dotdot', 'a/../x'), ('dotdot', 'a/../../x'),
             ('dotdot', 'a/b/../../../x'), ('dotdot', '../../evil'), ('dotdot', '../../../../../evil5'),
             ('absolute', '@CASE@/evil'),
             ('absolute', '/'), ('absolute', '@CASE@/../evil2')]
BAD_FORMS = [('file', None), ('file', ['=', 'T']), ('file', ['+=', 'T']), ('dir', None),
             ('dir', ['=', ['list', [['file', 'in', None]]]]), ('dir', ['+=', ['list', [['file', 'in', None]]]])]


def reject_cases():
    for i, (defect, name) in enumerate(BAD_NAMES):
        for j, (kind, mod) in enumerate(BAD_FORMS):
            for pos in range(5):
                # complete form x position table for three names, a rotating half of it for the others
                if i in (3, 4, 8) or (i + j + pos) % 2 == 0:
                    yield {'kind': 'reject', 'defect': defect, 'name': name, 'form': [kind, mod], 'pos': pos}


LITERALS = [
    # one file named twice in a files-condition, with two spellings of its name: every condition written for the file
    # must hold (whether the two spellings count as "a single file name" whose matchers are AND-ed, or as two
    # conditions, the verdict is the same: a later entry never replaces an earlier one)
    {'name': 'one-file-two-spellings', 'expect': 'PASS', 'act': None,
     'text': '''[setup]
dir d = {
    file a
    dir s = {
        file f
    }
}
[act]
$ true
[assert]
dir-contents d : ! matches {
    a : type dir
    ./a : type file
}
dir-contents d : ! matches {
    ./a : type file
    a : type dir
}
dir-contents d : -recursive ! matches {
    s/f : type dir
    s//f : type file
}
dir-contents d : -recursive ! matches {
    s/f : type file
    ./s/f : type dir
}
dir-contents d : -recursive matches {
    a : type file
    ./a : ! type dir
    s//f
    s/f : type file
}
'''},
    {'name': 'symbols', 'expect': 'PASS', 'act': {'d': ('d',), 'd/a': ('f', 'x'), 'd/s': ('d',), 'd/s/b': ('f', '')},
     'text': '''[setup]
def files-source FS = { file b }
def files-source WHOLE = {
    file a = 'x'
    dir s = FS
}
dir d = WHOLE
def file-matcher IS_S = type dir && dir-contents matches -full { b : type file }
def files-condition FC = {
    a : contents equals 'x'
    s : IS_S
}
def files-matcher ALL = matches -full FC
[assert]
dir-contents d : ALL
dir-contents d : -recursive -selection type file num-files == 2
exists d : dir-contents ALL
exists d/s : IS_S
'''},
    {'name': 'readme', 'expect': 'PASS',
     'act': {'input': ('d',), 'input/a.txt': ('f', 'GOOD contents'), 'input/b.txt': ('f', 'bad contents'),
             'input/sub': ('d',), 'input/sub/c.txt': ('f', 'more bad contents'), 'output': ('d',),
             'output/good': ('d',), 'output/bad': ('d',)},
     'text': '''[setup]
dir output/good
dir output/bad
dir input =
{
    file a.txt = 'GOOD contents'
    file b.txt = 'bad contents'
    dir  sub   = { file c.txt = 'more bad contents' }
}
[assert]
dir-contents output/good : is-empty
dir-contents input : matches -full
    {
        a.txt : type file
        b.txt : type file
        sub   : type dir &&
                dir-contents matches -full
                {
                    c.txt : type file
                }
    }
'''},
    # one matcher OBJECT applied to several directories in turn (state must not be carried from one application to the
    # next): only directory c holds both f and g
    {'name': 'one-matcher-many-dirs', 'expect': 'PASS',
     'act': {'top': ('d',), 'top/a': ('d',), 'top/a/f': ('f', ''), 'top/b': ('d',), 'top/b/g': ('f', ''),
             'top/c': ('d',), 'top/c/f': ('f', ''), 'top/c/g': ('f', ''), 'top/e': ('d',)},
     'text': '''[setup]
dir top = {
    dir a = { file f }
    dir b = { file g }
    dir c = {
        file f
        file g
    }
    dir e
}
def file-matcher HAS_BOTH = dir-contents matches { f
                                                   g }
[assert]
dir-contents top : ! every file : dir-contents matches { f
                                                         g }
dir-contents top : any file : dir-contents matches { f
                                                     g }
dir-contents top : -selection dir-contents matches { f
                                                     g } num-files == 1
dir-contents top : -selection dir-contents matches { f } num-files == 2
dir-contents top : -selection dir-contents matches { g } num-files == 2
dir-contents top : -selection dir-contents matches -full { f } num-files == 1
dir-contents top : -selection dir-contents matches -full { f
                                                           g } num-files == 1
dir-contents top : -selection HAS_BOTH num-files == 1
dir-contents top : -selection HAS_BOTH num-files == 1
dir-contents top : every file : dir-contents ! matches { f
                                                         g
                                                         h }
dir-contents top : -selection dir-contents is-empty num-files == 1
dir-contents top : -selection ( dir-contents matches { f } && dir-contents matches { g } ) num-files == 1
dir-contents top : -selection ( dir-contents matches { f } || dir-contents matches { g } ) num-files == 3
dir-contents top : -selection dir-contents num-files == 1 num-files == 2
dir-contents top : -selection dir-contents any file : name f num-files == 2
'''},
    {'name': 'bad-copy-source-missing', 'expect': 'REJECT', 'act': None,
     'text': '[setup]\ndir d = dir-contents-of -rel-home no-such-dir\n'},
    {'name': 'bad-copy-source-is-file', 'expect': 'REJECT', 'act': None,
     'text': '[setup]\ndir d = dir-contents-of -rel-home afile\n'},
    {'name': 'bad-copy-source-sandbox', 'expect': 'REJECT', 'act': {},
     'text': '[setup]\ndir d = dir-contents-of -rel-act no-such-dir\n', 'tolerate': ['d']},
    # dir-contents-of onto a directory that already holds one of the names to copy.  Every creating form of a
    # FILE-SPEC says "The path must not exist" (only the += forms modify what exists): a name that exists is a clash,
    # the population fails (HARD_ERROR) - it is never skipped silently or overwritten
    {'name': 'copy-clash-with-file', 'expect': 'HARD_ERROR', 'act': None,
     'text': "[setup]\ndir d = {\n  file a = 'first'\n}\ndir d += dir-contents-of -rel-home src1\n"},
    {'name': 'copy-clash-with-dir', 'expect': 'HARD_ERROR', 'act': None,
     'text': "[setup]\ndir d = {\n  dir s\n}\ndir d += dir-contents-of -rel-home src1\n"},
    {'name': 'copy-clash-in-nested-list', 'expect': 'HARD_ERROR', 'act': None,
     'text': "[setup]\ndir d = {\n  dir n = {\n    file k\n  }\n  dir n += dir-contents-of -rel-home src2\n}\n"},
    {'name': 'copy-twice-into-same-dir', 'expect': 'HARD_ERROR', 'act': None,
     'text': "[setup]\ndir d = dir-contents-of -rel-home src2\ndir d += dir-contents-of -rel-home src2\n"},
    # a population that fails at run time is a HARD_ERROR in whatever phase the instruction stands
    {'name': 'clash-in-before-assert', 'expect': 'HARD_ERROR', 'act': None,
     'text': "[setup]\ndir d = {\n  file a = 'first'\n}\n[before-assert]\ndir d += dir-contents-of -rel-home src1\n"},
    {'name': 'clash-in-assert', 'expect': 'HARD_ERROR', 'act': None,
     'text': "[setup]\ndir d = {\n  file a = 'first'\n}\n[assert]\ndir d += dir-contents-of -rel-home src1\n"},
    {'name': 'clash-in-assert-nested-list', 'expect': 'HARD_ERROR', 'act': None,
     'text': "[setup]\ndir d = {\n  dir n = {\n    dir m = {\n      file k\n    }\n  }\n}\n[assert]\n"
             "dir d += {\n  dir n += {\n    dir m += {\n      file k\n    }\n  }\n}\n"},
    {'name': 'clash-in-cleanup', 'expect': 'HARD_ERROR', 'act': None,
     'text': "[setup]\ndir d = {\n  dir s\n}\n[cleanup]\ndir d += dir-contents-of -rel-home src1\n"},
    # -with-pruned FILE-MATCHER FILES-MATCHER takes ONE (simple) files-matcher: an infix operator that follows belongs to
    # the enclosing expression, whose model is the un-pruned directory (3 entries; 2 when `p` is pruned)
    {'name': 'with-pruned-followed-by-operator', 'expect': 'PASS', 'act': None,
     'text': '''[setup]
dir top = {
  dir p = {
    file x
  }
  file y
}
[assert]
dir-contents top : -recursive num-files == 3
dir-contents top : -recursive -with-pruned name p num-files == 2
dir-contents top : -recursive -with-pruned name p num-files == 2 && num-files == 3
dir-contents top : -recursive ! ( -with-pruned name p num-files == 3 || num-files == 2 )
dir-contents top : -recursive ( -with-pruned name p num-files == 3 || num-files == 3 )
dir-contents top : -recursive -with-pruned name p ( num-files == 2 && ! num-files == 3 )
dir-contents top : -recursive -selection type file num-files == 2 && num-files == 3
'''},
    # names the file system refuses to look up (longer than NAME_MAX; through a symbolic-link loop), in an appended list
    {'name': 'append-name-too-long', 'expect': 'HARD_ERROR', 'act': None,
     'text': "[setup]\ndir d\ndir d += {\n  file %s\n}\n" % ('n' * 300)},
    {'name': 'append-dir-name-too-long', 'expect': 'HARD_ERROR', 'act': None,
     'text': "[setup]\ndir d\ndir d += {\n  dir %s += {\n    file k\n  }\n}\n" % ('n' * 300)},
    {'name': 'create-name-too-long', 'expect': 'HARD_ERROR', 'act': None,
     'text': "[setup]\ndir d = {\n  file %s\n}\n" % ('n' * 300)},
    {'name': 'append-to-missing-dir-in-assert', 'expect': 'HARD_ERROR', 'act': None,
     'text': "[assert]\ndir nodir += {\n  file k\n}\n"},
]


# =====================================================================================================
def cases(tier, seed):
    for c in core_pop_cases():
        if c is not None:
            yield c
    for c in reject_cases():
        yield c
    for i in range(len(LITERALS)):
        yield {'kind': 'lit', 'n': i}
    for c in copy_links_cases():
        yield c
    for c in core_match_cases():
        yield c
    rng = common.rng_for(seed, ID, 'match')
    n_match, n_pop = (500, 400) if tier == 'quick' else (8000, 5000)
    for c in seeded_match_cases(rng, n_match):
        yield c
    rng = common.rng_for(seed, ID, 'pop')
    for c in seeded_pop_cases(rng, n_pop):
        yield c


# =====================================================================================================
# runner
# =====================================================================================================
_SAMPLED = set()


def _want_sample(category):
    """one written-out sample per category and worker"""
    if category in _SAMPLED:
        return False
    _SAMPLED.add(category)
    return True


def _ident(r, keep):
    from vf.driver import first_line
    return first_line(r.err) if keep else first_line(r.out)


def run_text(ses, d, text, keep=False, name='t.case'):
    with open(os.path.join(d, name), 'w', encoding='utf-8', newline='') as f:
        f.write(text)
    r = ses.run((['--keep'] if keep else []) + [os.path.join(d, name)], cwd=d, mode='keep' if keep else 'normal')
    return _ident(r, keep), r


def _model_snapshot(flat):
    out = {}
    for p, v in flat.items():
        if v[0] == 'f':
            b = v[1].encode('utf-8')
            out[p] = ('f', len(b), hashlib.sha1(b).hexdigest())
        else:
            out[p] = tuple(v)
    return out


def _written(audit, cwd0):
    """(event name, absolute normalised path that is created/modified)"""
    cwd = cwd0
    one = {'open-w', 'os.mkdir', 'os.remove', 'os.rmdir', 'os.chmod', 'os.truncate', 'shutil.rmtree', 'os.utime',
           'os.chown', 'tempfile.mkdtemp', 'tempfile.mkstemp'}
    second = {'shutil.copyfile', 'shutil.copytree', 'shutil.move', 'shutil.copymode', 'shutil.copystat', 'os.symlink',
              'os.link'}
    for e in audit:
        name = e[0]
        if name == 'os.chdir':
            if isinstance(e[1], str):
                cwd = os.path.normpath(os.path.join(cwd, e[1]))
            continue
        paths = []
        if name in one:
            paths = [e[1]]
        elif name in second:
            paths = [e[2]]
        elif name == 'os.rename':
            paths = [e[1], e[2]]
        for p in paths:
            if isinstance(p, str):
                yield name, os.path.normpath(os.path.join(cwd, p))


def check_confinement(r, sds, pop_roots, case_dir):
    """-> (n events, list of complaints).  pop_roots: absolute paths of populated directories."""
    bad = []
    n = 0
    infra = {sds, sds + '/act', sds + '/tmp', sds + '/result', sds + '/internal'} if sds else set()
    for name, p in _written(r.audit, r.cwd_before):
        n += 1
        if p == '/dev/null':
            continue
        if sds:
            if p in infra or p.startswith(sds + '/result/') or p.startswith(sds + '/internal/'):
                continue
            ok = False
            for root in pop_roots:
                if p == root or p.startswith(root + '/'):
                    ok = True
                elif name == 'os.mkdir' and root.startswith(p + '/') and (p.startswith(sds + '/act/')
                                                                           or p.startswith(sds + '/tmp/')):
                    ok = True  # "Intermediate directories are created, if required"
            if ok:
                continue
        bad.append('%s %s' % (name, p))
    return n, bad


def _sandbox_of(r):
    if r.out.endswith('\n') and r.out.count('\n') == 1 and os.path.isdir(r.out[:-1]):
        return r.out[:-1]
    return None


def check_assertions(ses, ctx, d, header_lines, asserts, world_of, viol, classes, what, keep_first=False):
    """Runs the assertions (batch in predicted polarity, HARD_ERROR predictions and one raw FAIL prediction alone).
    Returns (RunResult of the batch run, number of runs, inconclusive reasons)."""
    exps = []
    for a in asserts:
        try:
            e = expected_of(world_of(a), a)
        except T.Undefined:
            e = T.UNDEF
        exps.append(e)
    runs = 0
    batch = [(a, e) for a, e in zip(asserts, exps) if e in ('PASS', 'FAIL')]
    hards = [(a, e) for a, e in zip(asserts, exps) if e == 'HARD_ERROR']
    for a, e in zip(asserts, exps):
        if e == T.UNDEF:
            ctx.count('c15.undefined_by_manual_skipped')
        else:
            classes.add(assert_class(a, e))

    def text_of(lines):
        return '\n'.join(header_lines + ['[assert]'] + lines) + '\n'

    def single(a, flip):
        ident, r = run_text(ses, d, text_of(render_assert(a, flip)))
        return ident, r

    def complain(a, e, ident, r, form):
        viol.append({'what': 'C15 %s: `%s` expected %s by the reference model, observed %s' % (
            what, ' '.join(l.strip() for l in render_assert(a, form == 'negated'))[:160], e, ident or repr(r.rc)),
            'detail': {'assertion': a, 'form': form, 'case_text': text_of(render_assert(a, form == 'negated')),
                       'expected': e, 'observed': r.brief()}})

    lines = []
    for a, e in batch:
        lines.extend(render_assert(a, flip=(e == 'FAIL')))
    ident, r = run_text(ses, d, text_of(lines), keep=keep_first)
    runs += 1
    first = r
    if r.timed_out:
        return first, runs, ['watchdog']
    if ident == 'PASS' and r.rc == 0:
        ctx.count('c15.verdicts_compared', len(batch))
    else:
        found = False
        for a, e in batch:
            ident1, r1 = single(a, False)
            runs += 1
            ctx.count('c15.verdicts_compared')
            if ident1 != e:
                complain(a, e, ident1, r1, 'as written')
                found = True
        if not found:
            for a, e in batch:
                if e != 'FAIL':
                    continue
                ident1, r1 = single(a, True)
                runs += 1
                if ident1 != 'PASS':
                    complain(a, 'PASS', ident1, r1, 'negated')
                    found = True
        if not found:
            viol.append({'what': 'C15 %s: every assertion alone agrees with the reference, together they give %s'
                                 % (what, ident or repr(r.rc)),
                         'detail': {'case_text': text_of(lines), 'observed': r.brief()}})
    # one FAIL prediction exactly as written (does not rely on `!`)
    fails = [(a, e) for a, e in batch if e == 'FAIL']
    if fails:
        a, e = fails[len(lines) % len(fails)]
        ident1, r1 = single(a, False)
        runs += 1
        ctx.count('c15.raw_fail_predictions_run')
        if ident1 != 'FAIL' or r1.rc != 32:
            complain(a, e, ident1, r1, 'as written')
    for a, e in hards:
        ident1, r1 = single(a, False)
        runs += 1
        ctx.count('c15.hard_error_predictions_run')
        if ident1 != 'HARD_ERROR' or r1.rc != 128:
            complain(a, e, ident1, r1, 'as written')
    return first, runs, []


# ---------------------------------------------------------------------------------------------------------
def run_match(case, ctx):
    ses = ctx.get_session()
    files = {'T': ('dir',)}
    files.update(T.to_write_files(case['tree'], 'T/'))
    d = ses.new_case_dir(files)
    viol, classes = [], set()
    asserts = subst_root(case['asserts'], d)
    world = T.World(D({'T': case['tree']}), d)
    from vf.driver import snapshot_tree
    before = snapshot_tree(os.path.join(d, 'T'))
    first, runs, inconc = check_assertions(ses, ctx, d, [], asserts, lambda a: world, viol, classes,
                                           'match[%s]' % case['tname'])
    if snapshot_tree(os.path.join(d, 'T')) != before:
        viol.append({'what': 'C15 match: matching modified the matched tree', 'detail': {}})
    res = {'classes': sorted(classes), 'viol': viol, 'inconclusive': inconc, 'evaluations': runs}
    if case['tname'] in ('t1', 'rnd') and len(asserts) > 3 and first is not None and _want_sample('match'):
        exps = [expected_of(world, a) for a in asserts[:3]]
        res['sample'] = {'kind': 'match', 'tree': T.flatten(case['tree'], 'T/'),
                         'assertions': ['\n'.join(render_assert(a)).replace(d, '<home>')
                                        for a in asserts[:3]],
                         'expected_by_reference': exps,
                         'observed': 'case with all %d assertions in predicted polarity: %s' % (
                             len(asserts), first.out.strip() if first is not None else None)}
    ses.clean_tmp()
    ses.drop(d)
    return res


def run_pop(case, ctx):
    ses = ctx.get_session()
    from vf.driver import snapshot_tree
    home = D(HOME_SRC)
    instrs = case['instrs']
    uses_home = '"copy"' in json.dumps(instrs)
    d = ses.new_case_dir(T.to_write_files(home) if uses_home else {'keep.txt': 'k'})
    home_before = snapshot_tree(d)
    sb, failure = T.run_dir_instructions(json.loads(json.dumps(instrs)), home)
    header = ['[setup]']
    for ins in instrs:
        header.extend(T.render_dir_instruction(ins))
    viol, classes = [], set()
    inconc = []
    runs = 0
    exp_ident = 'PASS' if failure is None else 'HARD_ERROR'
    worlds = {'act': T.World(sb['act'], '/SANDBOX/act'), 'tmp': T.World(sb['tmp'], '/SANDBOX/tmp')}
    text = '\n'.join(header) + '\n'

    def bad(msg, **detail):
        detail.update({'case_text': text, 'expected': exp_ident})
        viol.append({'what': 'C15 pop: ' + msg, 'detail': detail})

    if failure is None and case['asserts']:
        r, runs, inconc = check_assertions(ses, ctx, d, header, case['asserts'],
                                           lambda a: worlds[a.get('area', 'act')], viol, classes, 'pop+match',
                                           keep_first=True)
        ident = _ident(r, True)
        # when the batch ends in [assert] (already reported by the bisection), [setup] itself has passed
        if ident in ('FAIL', 'HARD_ERROR') and 'In [assert]' in r.err:
            ident = 'PASS'
    else:
        ident, r = run_text(ses, d, text, keep=True)
        runs = 1
    if r.timed_out:
        inconc.append('watchdog')
    elif r.exc is not None:
        bad('exception escaped MainProgram.execute', observed=r.brief())
    else:
        sds = _sandbox_of(r)
        if ident != exp_ident:
            why = '' if failure is None else ' (instruction %d, rule %s at %s)' % (
                failure[0], failure[1].rule, '/'.join(failure[1].comps))
            bad('expected %s%s, observed %s' % (exp_ident, why, ident), observed=r.brief())
        if sds is None:
            bad('no kept sandbox reported on stdout', observed=r.brief())
        else:
            ctx.count('c15.tree_compared')
            for area in ('act', 'tmp'):
                on_disk = snapshot_tree(os.path.join(sds, area))
                model = _model_snapshot(T.flatten(sb[area]))
                if failure is not None:
                    fail_comps = failure[1].comps
                    ins = instrs[failure[0]]
                    base = [c for c in ins[1].split('/')]
                    chain = base + fail_comps
                    for k in range(1, len(chain)):
                        p = '/'.join(chain[:k])
                        if p not in model and on_disk.get(p) == ('d',):
                            del on_disk[p]  # intermediate directory of the failing entry itself: tolerated
                if on_disk != model:
                    diff = {p: (model.get(p), on_disk.get(p)) for p in set(model) | set(on_disk)
                            if model.get(p) != on_disk.get(p)}
                    bad('tree in %s/ after the `dir` instructions differs from the tree the FILE-LIST denotes: %s'
                        % (area, json.dumps(common.jsonable(diff), sort_keys=True)[:300]),
                        diff_model_vs_disk=diff, observed=r.brief())
            roots = [os.path.join(sds, 'tmp' if ins[0] == '-rel-tmp' else 'act', ins[1]) for ins in instrs]
            n, complaints = check_confinement(r, sds, roots, d)
            ctx.count('c15.audit_events_checked', n)
            if complaints:
                bad('file-system modification outside the populated directory: %s' % complaints[:3],
                    events=complaints[:20])
        home_after = snapshot_tree(d)
        home_after.pop('t.case', None)
        if home_after != home_before:
            bad('home directory modified: %r' % sorted(set(home_after) ^ set(home_before)))
        if len(r.new_tmp_entries) > 1:
            bad('more than one entry created in TMPDIR: %r' % r.new_tmp_entries)
    # class key
    if failure is None:
        last = instrs[-1]
        key = ('pop', 'PASS', '-', _form_of(['dir', last[1], last[2]]), _nesting(instrs), case['tag'])
    else:
        key = ('pop', 'HARD_ERROR', failure[1].rule, 'instr%d' % failure[0], len(failure[1].comps), case['tag'])
    classes.add(key)
    res = {'classes': sorted(classes, key=repr), 'viol': viol, 'inconclusive': inconc, 'evaluations': runs}
    if (failure is not None and len(instrs) > 1 and _want_sample('pop-hard')) or (
            failure is None and case['tag'] == 'rnd' and _want_sample('pop-pass')):
        res['sample'] = {'kind': 'pop', 'case_text': text,
                         'expected': {'identifier': exp_ident, 'act': T.flatten(sb['act']),
                                      'broken_rule': None if failure is None else failure[1].rule},
                         'observed': {'identifier': ident, 'act': common.jsonable(
                             snapshot_tree(os.path.join(_sandbox_of(r), 'act')) if _sandbox_of(r) else None)}}
    ses.clean_tmp()
    ses.drop(d)
    return res


def _form_of(spec):
    mod = spec[2]
    if mod is None:
        return spec[0]
    if spec[0] == 'file':
        return 'file' + mod[0]
    return 'dir' + mod[0] + mod[1][0]


def _nesting(instrs):
    def depth(src):
        if src is None or src[1][0] != 'list':
            return 0
        return 1 + max([depth(s[2]) for s in src[1][1] if s[0] == 'dir'] + [0])

    return max(depth(i[2]) for i in instrs)


def run_reject(case, ctx):
    ses = ctx.get_session()
    from vf.driver import snapshot_tree
    d = ses.new_case_dir({'keep.txt': 'k'})
    name = case['name'].replace('@CASE@', d)
    kind, mod = case['form']
    pos = case['pos']
    spec = [kind, name, mod]
    setup = ['[setup]']
    if pos == 0:
        specs = [spec]
    elif pos == 1:
        specs = [['file', 'ok', None], spec]
    elif pos == 2:
        specs = [['dir', 'n', ['=', ['list', [['file', 'ok', None], spec]]]]]
    elif pos == 3:
        specs = [['dir', 'n', None], ['dir', 'n', ['+=', ['list', [spec]]]]]
    else:
        # through a string symbol
        setup.append('def string S = ' + T.q(name))
        specs = [[kind, '@[S]@', mod]]
    lines = T.render_source(['list', specs], '')
    lines = [l.replace("'@[S]@'", '@[S]@') for l in lines]
    setup.append('dir top/d = ' + lines[0])
    setup.extend(lines[1:])
    text = '\n'.join(setup) + '\n'
    before = snapshot_tree(d)
    parent_before = sorted(os.listdir(os.path.dirname(d)))
    ident, r = run_text(ses, d, text, keep=True)
    viol = []

    def bad(msg, **detail):
        detail.update({'case_text': text, 'observed': r.brief()})
        viol.append({'what': 'C15 reject[%s %s, position %d]: %s' % (case['defect'], case['name'], pos, msg),
                     'detail': detail})

    inconc = []
    if r.timed_out:
        inconc.append('watchdog')
    elif r.exc is not None:
        bad('exception escaped MainProgram.execute')
    else:
        ctx.count('c15.rejections_checked')
        if ident not in REJECT_IDENTS:
            bad('FILE-NAME that is %s must be rejected, observed %s' % (case['defect'], ident or r.rc))
        after = snapshot_tree(d)
        after.pop('t.case', None)
        if after != before:
            bad('case/home directory changed: %r' % sorted(set(after) ^ set(before)))
        if sorted(os.listdir(os.path.dirname(d))) != parent_before:
            bad('entries created beside the case directory')
        sds = _sandbox_of(r)
        n, complaints = check_confinement(r, sds, [sds + '/act/top/d'] if sds else [], d)
        ctx.count('c15.audit_events_checked', n)
        if complaints:
            bad('file-system modification outside the populated directory: %s' % complaints[:3])
        if sds:
            act = snapshot_tree(os.path.join(sds, 'act'))
            outside = [p for p in act if not (p == 'top' or p == 'top/d' or p.startswith('top/d/'))]
            if outside:
                bad('created outside the populated directory: %r' % outside)
            if snapshot_tree(os.path.join(sds, 'tmp')):
                bad('created in tmp/: %r' % sorted(snapshot_tree(os.path.join(sds, 'tmp'))))
    res = {'classes': [('reject', case['defect'], pos, _form_of(['x', 'x', mod]) if mod else kind, ident)],
           'viol': viol, 'inconclusive': inconc, 'evaluations': 1}
    if pos == 2 and case['name'] in ('a/../../x', '@CASE@/evil') and _want_sample('reject'):
        res['sample'] = {'kind': 'reject', 'case_text': text, 'expected': 'one of %s, nothing created' %
                                                                          (REJECT_IDENTS,),
                         'observed': {'identifier': ident, 'rc': r.rc}}
    ses.clean_tmp()
    ses.drop(d)
    return res


def run_lit(case, ctx):
    ses = ctx.get_session()
    from vf.driver import snapshot_tree
    lit = LITERALS[case['n']]
    d = ses.new_case_dir(T.to_write_files(D(HOME_SRC)))
    ident, r = run_text(ses, d, lit['text'], keep=True)
    viol = []
    inconc = ['watchdog'] if r.timed_out else []

    def bad(msg):
        viol.append({'what': 'C15 literal[%s]: %s' % (lit['name'], msg),
                     'detail': {'case_text': lit['text'], 'observed': r.brief()}})

    if not r.timed_out:
        if r.exc is not None:
            bad('exception escaped')
        if lit['expect'] == 'REJECT':
            if ident not in ('VALIDATION_ERROR', 'HARD_ERROR'):
                bad('expected VALIDATION_ERROR or HARD_ERROR, observed %s' % ident)
        elif ident != lit['expect']:
            bad('expected %s, observed %s' % (lit['expect'], ident))
        sds = _sandbox_of(r)
        if lit['act'] is not None:
            if sds is None:
                bad('no sandbox kept')
            else:
                ctx.count('c15.tree_compared')
                on_disk = snapshot_tree(os.path.join(sds, 'act'))
                for p in lit.get('tolerate', []):
                    if on_disk.get(p) == ('d',):
                        del on_disk[p]
                if on_disk != _model_snapshot(lit['act']):
                    bad('act/ is %r' % on_disk)
    ses.clean_tmp()
    ses.drop(d)
    return {'classes': [('lit', lit['name'], ident)], 'viol': viol, 'inconclusive': inconc, 'evaluations': 1}


# -----------------------------------------------------------------------------------------------------
# dir-contents-of a source that holds symbolic links.  The manual says "a copy of the contents of PATH (recursive)"
# and is silent on links, so no particular treatment is demanded - only what follows from the statement whatever
# the treatment is: (a) one treatment at every depth (the tree a source denotes does not depend on where in the
# source an entry sits); (b) an entry copied as a regular file has the contents of the file the link leads to;
# (c) appending to a copied entry changes nothing outside the populated directory (the source is untouched).
# -----------------------------------------------------------------------------------------------------
_LINK_APPENDS = [[], ['ltop'], ['sub/lrel'], ['sub/lup'], ['sub/labs'], ['sub/deep/labs2', 'ltop'],
                 ['sub/labs', 'sub/lup', 'sub/lrel', 'ltop']]


def copy_links_cases():
    for k, appends in enumerate(_LINK_APPENDS):
        for form in (0, 1, 2):
            yield {'kind': 'copy-links', 'appends': appends, 'form': form, 'n': k}


def run_copy_links(case, ctx):
    from vf.driver import snapshot_tree, write_files
    ses = ctx.get_session()
    d = ses.new_case_dir({})
    src = os.path.join(d, 'srcL')
    write_files(d, {'srcL/top.txt': 'T\n', 'srcL/sub/f.txt': 'F\n', 'srcL/sub2/g.txt': 'G\n',
                    'srcL/sub/deep/h.txt': 'H\n'})
    links = {'ltop': 'top.txt', 'ldtop': 'sub2', 'sub/lrel': 'f.txt', 'sub/lup': '../top.txt',
             'sub/labs': os.path.join(src, 'top.txt'), 'sub/ldir': '../sub2', 'sub/deep/labs2': os.path.join(src, 'sub', 'f.txt'),
             'sub/deep/lup2': '../../top.txt', 'sub/deep/ldir2': os.path.join(src, 'sub2')}
    for rel, target in links.items():
        os.symlink(target, os.path.join(src, rel))
    file_links = {'ltop': 'T\n', 'sub/lrel': 'F\n', 'sub/lup': 'T\n', 'sub/labs': 'T\n', 'sub/deep/labs2': 'F\n',
                  'sub/deep/lup2': 'T\n'}
    dir_links = ['ldtop', 'sub/ldir', 'sub/deep/ldir2']
    form = case['form']
    if form == 0:
        lines = ['dir d = dir-contents-of -rel-home srcL']
    elif form == 1:
        lines = ['dir d', 'dir d += dir-contents-of -rel-home srcL']
    else:
        lines = ['dir d = {', '  dir e = dir-contents-of -rel-home srcL', '}']
    root = 'd' if form != 2 else 'd/e'
    for a in case['appends']:
        lines.append('file %s/%s += "+"' % (root, a))
    text = '[setup]\n' + '\n'.join(lines) + '\n'
    before = snapshot_tree(src)
    ident, r = run_text(ses, d, text, keep=True)
    viol = []
    inconc = ['watchdog'] if r.timed_out else []

    def bad(msg, **kw):
        kw.update({'case_text': text, 'source_links': links, 'observed': r.brief()})
        viol.append({'what': 'C15 dir-contents-of with links [%s]: %s' % ('+'.join(case['appends']) or 'no append',
                                                                        msg), 'detail': kw})

    evaluations = 0
    if not r.timed_out:
        if r.exc is not None:
            bad('exception escaped')
        after = snapshot_tree(src)
        ctx.count('c15.copy_links_source_unchanged_checks')
        evaluations += 1
        if after != before:
            diff = {k: [before.get(k), after.get(k)] for k in set(before) | set(after) if before.get(k) != after.get(k)}
            bad('the SOURCE directory changed (populating / appending to the copy must not write outside the '
                'populated directory): %r' % diff)
        if ident not in ('PASS', 'HARD_ERROR'):
            bad('outcome %s (exactly the denoted tree, or HARD_ERROR)' % ident)
        sds = _sandbox_of(r)
        if sds is not None and os.path.isdir(os.path.join(sds, 'act', root)):
            top = os.path.join(sds, 'act', root)

            def kind(rel):
                p = os.path.join(top, rel)
                return 'link' if os.path.islink(p) else 'dir' if os.path.isdir(p) else 'file' if os.path.isfile(p) \
                    else 'absent'

            kf = {rel: kind(rel) for rel in file_links}
            kd = {rel: kind(rel) for rel in dir_links}
            ctx.count('c15.copy_links_uniformity_checks')
            evaluations += 1
            if ident == 'PASS' and (len(set(kf.values())) != 1 or len(set(kd.values())) != 1):
                bad('links in the source are not treated alike at every depth: links to files copied as %r, links to '
                    'directories as %r' % (kf, kd))
            if ident == 'PASS':
                for rel, want in file_links.items():
                    if kf[rel] == 'file':
                        with open(os.path.join(top, rel)) as f:
                            got = f.read()
                        exp = want + ('+' if rel in case['appends'] else '')
                        if got != exp:
                            bad('copied entry %s holds %r, expected %r' % (rel, got, exp))
                for rel in dir_links:
                    if kd[rel] == 'dir' and not os.path.isfile(os.path.join(top, rel, 'g.txt')):
                        bad('directory copied from the link %s lacks the contents of its target' % rel)
    ses.clean_tmp()
    ses.drop(d)
    return {'classes': [('copy-links', case['form'], len(case['appends']), ident)], 'viol': viol,
            'inconclusive': inconc, 'evaluations': evaluations}


def run_case(case, ctx):
    k = case['kind']
    if k == 'copy-links':
        return run_copy_links(case, ctx)
    if k == 'match':
        return run_match(case, ctx)
    if k == 'pop':
        return run_pop(case, ctx)
    if k == 'reject':
        return run_reject(case, ctx)
    if k == 'lit':
        return run_lit(case, ctx)
    raise ValueError(k)
