"""C08 Symbols: defined before use, defined once, type-checked, substituted faithfully (D1, M1, M2, M7).

Generated programs of def/use statements are given to the real CLI; the verdict (VALIDATION_ERROR with nothing
executed / executed), the argv and stdin seen by probe processes, and the contents of created files are compared
with the reference interpreter vf/models/symbols.py (written from the manual)."""
import itertools
import os

from vf import common, probe
from vf.models import symbols as M

ID = 'C08'
LEVEL = 'exploration'
RULE = ('cases = programs of def/use statements built over the 13 value types: (matrix) 16 kinds of definition / builtin / '
        'undefined name x 35 reference contexts x placement of the definition (before, earlier phase, after, later '
        'phase, file order reversed, [act] after/before the definition); (chain) every directly well-typed chain of one '
        'and two intermediate definitions over 44 link kinds x every use context; (order) 2- and 3-statement programs '
        'over all phase combinations and all file orders; (dup) double definitions and redefinition of every builtin; '
        '(cd) paths relative the current directory referenced before/after cd; (twice) one statement that references '
        'the same symbol in two contexts demanding different types, in both orders, directly and through a string '
        'definition; (rand) seeded programs of 2..7 '
        'statements. Logic symbols are observed through what they do: transformers/matchers via the contents of '
        '`file f = TEXT -transformed-by ...`, programs via the probe argv, text-sources via file contents, '
        'files-sources via a dump of the created tree, file/files matchers and conditions via assertions whose '
        'expected truth the reference computes. class key = (part, defined type, link kinds, context, placement / phases / file order, verdict '
        '[, reason, context of the offending reference]); a case is non-trivial when the CLI returned and either the '
        'rejection + absence of every effect, or the complete probe trace (argv, stdin = file contents, cwd) was '
        'compared with the reference interpreter')
ASSUMPTIONS = [
    'the oracle is vf/models/symbols.py, written from `exactly help` (def, concept symbol/type, syntax STRING, LIST, '
    'PATH, TEXT-SOURCE, PROGRAM, PROGRAM-ARGUMENT, the logic types, builtin); nothing is read from exactly_lib',
    'list symbols, and strings built from list/path symbols, inside a FILE-NAME: the manual is silent; the rule is '
    'taken from the program\'s own error message ("Every symbol used as a path component of a path must be defined '
    'as a string", with the chain of definitions it was reached through): such a reference, direct or through any '
    'number of string definitions, is a type error',
    'the same for the STRING of `% STRING` ("A program name must be defined in terms of string.")',
    'left out because the manual leaves it open ("converted ... by using a naked SYMBOL-REFERENCE (in most places)"): '
    'text glued directly to a path reference (@[P]@x); INTEGERs that are not '
    'integer literals; a list that renders as an integer inside an INTEGER',
    'a path reference (direct, or at the start of a referenced string, transitively) as FILE-NAME after an explicit '
    'RELATIVITY is taken to be an error ("If FILE-NAME is an absolute path, then RELATIVITY must not be given"); a '
    'path or a non-integer list (directly or transitively) inside an INTEGER is taken to be an error ("must evaluate '
    'to an integer")',
    'only normal mode and programs in which every instruction succeeds (a skipped `def` followed by a reference in '
    '[cleanup] is outside the quantifier, DESIGN 3/C08); no [conf]; `cd` only in the small "cd" part, where paths '
    'relative the current directory are referenced directly by use statements (what "referenced" means for a symbol '
    'built from such a path is left open by the manual)',
    'logic values are kept to a literal subset (regexes and file names of plain characters, integer literals, '
    'upper/lower/filter/grep/replace/identity, type/name/contents/dir-contents, is-empty/num-files/every|any file/'
    'matches, literal files-conditions and files-sources without +=) so that the reference evaluation is beyond '
    'doubt; constructs that end in HARD_ERROR (contents of a directory, creating an existing path) are not generated',
    'tokens are wholly naked, wholly soft-quoted or wholly hard-quoted (mixed quoting is C09/S8); no `#` (S7)',
]
EXHAUSTIVE_NOTE = ('matrix (16 definition kinds + 4 builtin/undefined x 35 contexts x 7 placements), chain (all directly '
                   'well-typed chains of <= 2 intermediates over 44 link kinds, each with all 35 use contexts), order '
                   '(4 types x all phase pairs/triples x all file orders), dup and cd are enumerated completely in both '
                   'tiers')
MIN_OBS = {'quick': {'evaluations': 10000, 'c08.rejections_checked': 8500, 'c08.no_effect_checked': 8500,
                     'c08.accepted_traces_compared': 1800, 'c08.argv_records_compared': 9000,
                     'c08.file_contents_compared': 1500, 'c08.directory_trees_compared': 250,
                     'c08.indirect_rejections': 150, 'classes': 9000},
           'thorough': {'evaluations': 90000, 'c08.rejections_checked': 55000, 'c08.no_effect_checked': 55000,
                        'c08.accepted_traces_compared': 35000, 'c08.argv_records_compared': 120000,
                        'c08.file_contents_compared': 15000, 'c08.directory_trees_compared': 2500,
                        'c08.indirect_rejections': 600, 'classes': 10000}}
_HDS_ROOTS = {'home', 'act-home'}


def _known_regex_of_home_path(v):
    """Mechanism: an instruction whose REGEX is built (directly or through other symbols) from a path symbol that
    is relative the home / act-home directory stops with INTERNAL_ERROR (TypeError: 'NoneType' object is not
    subscriptable -- the post-sds validator is handed a TestCaseDs without home directories); everything executed
    before that instruction agrees with the reference."""
    d = v.get('detail') or {}
    ob = d.get('observed') or {}
    return (v.get('what', '').startswith('C08 valid program is not executed to PASS: got \'INTERNAL_ERROR\'/129')
            and bool(set(d.get('stopped_at_regex_roots') or ()) & _HDS_ROOTS)
            and d.get('trace_prefix_ok') is True
            and "'NoneType' object is not subscriptable" in (ob.get('err') or ''))


KNOWN = {'regex_of_home_path_internal_error': _known_regex_of_home_path}

N_RAND = {'quick': 1600, 'thorough': 120000}


# =============================================================================================================
# small constructors
# =============================================================================================================
def T(text):
    return ['t', text]


def R(name):
    return ['r', name]


def N(*frags):
    return ['n', list(frags)]


def S(*frags):
    return ['s', list(frags)]


def H(text):
    return ['h', [['t', text]]]


def E(*frags):
    return ['e', list(frags)]


def D(*frags):
    return ['d', list(frags)]


def ref(name, form='p'):
    return ['ref', name, form]


def defn(typ, name, value):
    return {'k': 'def', 't': typ, 'n': name, 'v': value}


def args(uid, lst):
    return {'k': 'args', 'id': uid, 'a': lst}


def filest(uid, ts, rel=None):
    return {'k': 'file', 'id': uid, 'ts': ts, 'rel': rel}


def runst(pg):
    return {'k': 'run', 'pg': pg}


def dirst(uid, fs):
    return {'k': 'dir', 'id': uid, 'fs': fs}


def fmst(uid, on, fm):
    return {'k': 'fm', 'id': uid, 'on': on, 'fm': fm}


def fsmst(uid, fsm):
    return {'k': 'fsm', 'id': uid, 'fsm': fsm}


def TEXT_TOK():
    frags = []
    for line in M.TEXT.split('\n')[:-1]:
        frags += [T(line), R('NEW_LINE')]
    return S(*frags)


def text_via(tt):
    return ['str', TEXT_TOK(), tt]


# =============================================================================================================
# standard definitions (what X0 is) ; reference contexts ; links
# =============================================================================================================
def std_value(kind):
    """-> (type, value) of the standard definition of kind `kind`"""
    return {
        'string': ('string', S(T('sv'))),
        'string-int': ('string', N(T('2'))),
        'list': ('list', [N(T('la')), S(T('l b'))]),
        'list-empty': ('list', []),
        # empty elements first, in the middle and last: every element counts when the list is rendered in a string
        'list-lead-empty': ('list', [S(), N(T('la')), S(), S(T('l b')), S()]),
        'list-only-empty': ('list', [S(), H('')]),
        'path': ('path', {'rel': 'tmp', 'name': N(T('pv'))}),
        'path-home': ('path', {'rel': 'home', 'name': N(T('ph'))}),
        'integer-matcher': ('integer-matcher', ['cmp', '>=', N(T('2'))]),
        'line-matcher': ('line-matcher', ['line-num', ['cmp', '<=', N(T('3'))]]),
        'text-matcher': ('text-matcher', ['matches', N(T('b'))]),
        'text-transformer': ('text-transformer', ['upper']),
        'program': ('program', ['probe', 'pstd', [N(T('pa'))]]),
        'text-source': ('text-source', ['str', S(T('ts text')), None]),
        'file-matcher': ('file-matcher', ['type', 'file']),
        'files-matcher': ('files-matcher', ['is-empty']),
        'files-condition': ('files-condition', ['lit', [[N(T('fa')), None]]]),
        'files-source': ('files-source', ['lit', [['file', N(T('fa')), None]]]),
    }[kind]


DEF_KINDS = ('string', 'string-int', 'list', 'list-empty', 'path', 'path-home') + M.LOGIC_TYPES
SPECIALS = ('builtin-string', 'builtin-path', 'builtin-path-home', 'undefined')
EXTRA_DEF_KINDS = ('list-lead-empty', 'list-only-empty')  # matrix: placement 'before' only
SPECIAL_NAME = {'builtin-string': 'TAB', 'builtin-path': 'EXACTLY_TMP', 'builtin-path-home': 'EXACTLY_HOME',
                'undefined': 'UNDEF'}


def _ctx_table():
    """name -> (allowed in act?, f(X, k) -> [statements without phase]); the first statement holds the reference
    under test, the others make its value observable."""
    c = {}

    def y(k):
        return 'Y' + k

    c['arg-soft'] = lambda X, k: [args(k, [S(T('a '), R(X), T(' b'))])]
    c['arg-naked'] = lambda X, k: [args(k, [N(T('a'), R(X), T('b'))])]
    c['arg-elem'] = lambda X, k: [args(k, [N(T('e')), N(R(X)), N(T('f'))])]
    c['arg-elem-soft'] = lambda X, k: [args(k, [S(R(X))])]
    c['def-string'] = lambda X, k: [defn('string', y(k), S(T('p '), R(X))), args(k, [N(R(y(k)))])]
    c['def-string-naked'] = lambda X, k: [defn('string', y(k), N(R(X))), args(k, [N(R(y(k)))])]
    c['def-list'] = lambda X, k: [defn('list', y(k), [N(T('e')), N(R(X))]), args(k, [N(R(y(k))), S(R(y(k)))])]
    c['def-list-soft'] = lambda X, k: [defn('list', y(k), [S(R(X)), N(T('z'))]), args(k, [N(R(y(k)))])]
    c['arg-eol'] = lambda X, k: [args(k, [N(T('a')), E(T('x  '), R(X), T(' y'))])]
    c['arg-heredoc'] = lambda X, k: [args(k, [D(T('h '), R(X), T('\n'), R(X), T('\nlast\n'))])]
    c['def-string-eol'] = lambda X, k: [defn('string', y(k), E(R(X), T(' q'))), args(k, [N(R(y(k)))])]
    c['def-string-heredoc'] = lambda X, k: [defn('string', y(k), D(T('l1 '), R(X), T('\n'))), args(k, [S(R(y(k)))])]
    c['ts-eol'] = lambda X, k: [filest(k, ['str', E(T('g '), R(X)), None])]
    c['ts-heredoc'] = lambda X, k: [filest(k, ['str', D(R(X), T(' f\n')), None])]
    c['path-rel'] = lambda X, k: [defn('path', y(k), {'rel': ['sym', X], 'name': N(T('n'))}), args(k, [N(R(y(k)))])]
    c['path-prefix'] = lambda X, k: [defn('path', y(k), {'rel': None, 'name': N(R(X), T('/n'))}),
                                     args(k, [N(R(y(k)))])]
    c['path-whole'] = lambda X, k: [defn('path', y(k), {'rel': None, 'name': N(R(X))}), args(k, [N(R(y(k)))])]
    c['path-suffix'] = lambda X, k: [defn('path', y(k), {'rel': 'tmp', 'name': N(R(X))}), args(k, [N(R(y(k)))])]
    c['path-suffix-sym'] = lambda X, k: [defn('path', y(k), {'rel': ['sym', 'EXACTLY_ACT'], 'name': S(R(X), T('/q'))}),
                                         args(k, [N(R(y(k)))])]
    c['path-suffix-tail'] = lambda X, k: [defn('path', y(k), {'rel': 'act', 'name': N(T('n/'), R(X))}),
                                          args(k, [N(R(y(k)))])]
    c['creat'] = lambda X, k: [filest(k, ['str', S(T('c' + k)), None], rel=X)]
    c['creat-only'] = lambda X, k: [dict(filest(k, ['str', S(T('c' + k)), None], rel=X), quiet=True)]
    c['int'] = lambda X, k: [filest(k, text_via(['filter', ['line-num', ['cmp', '==', N(R(X))]]]))]
    c['ts-ref'] = lambda X, k: [filest(k, ['ref', X, 'a', None])]
    c['ts-ref-tt'] = lambda X, k: [filest(k, ['ref', X, 'a', ['upper']])]
    c['ts-str'] = lambda X, k: [filest(k, ['str', S(R(X)), None])]
    c['regex'] = lambda X, k: [filest(k, text_via(['grep', N(R(X))]))]
    c['repl'] = lambda X, k: [filest(k, text_via(['replace', N(T('b')), N(R(X))]))]
    c['equals'] = lambda X, k: [filest(k, text_via(['filter', ['contents', ['not', ['equals', ['ref', X, 'a', None]]]]]))]
    c['integer-matcher'] = lambda X, k: [filest(k, text_via(['filter', ['line-num', ref(X)]]))]
    c['integer-matcher@'] = lambda X, k: [filest(k, text_via(['filter', ['line-num', ['not', ref(X, 'a')]]]))]
    c['line-matcher'] = lambda X, k: [filest(k, text_via(['filter', ref(X)]))]
    c['text-matcher'] = lambda X, k: [filest(k, text_via(['filter', ['contents', ref(X, 'a')]]))]
    c['text-transformer'] = lambda X, k: [filest(k, text_via(['seq', [ref(X), ['replace', N(T('d')), N(T('DD'))]]]))]
    c['program'] = lambda X, k: [runst(['pref', X, [N(T('x' + k))]])]
    c['file-matcher'] = lambda X, k: [defn('files-matcher', y(k), ['every-file', ref(X)])]
    c['files-matcher'] = lambda X, k: [defn('file-matcher', y(k), ['dir-contents', ref(X, 'a')])]
    c['files-condition'] = lambda X, k: [defn('files-matcher', y(k), ['fmatches', ref(X)])]
    c['files-source'] = lambda X, k: [defn('files-source', y(k), ['lit', [['dir', N(T('sub')), ref(X)]]])]
    c['files-source-eval'] = lambda X, k: [dirst(k, ['lit', [['file', N(T('top')), None], ['dir', N(T('sub')), ref(X)]]])]
    c['fs-ts-eval'] = lambda X, k: [dirst(k, ['lit', [['file', N(T('d/leaf')), ['ref', X, 'a', None]]]])]
    c['fs-name-eval'] = lambda X, k: [dirst(k, ['lit', [['dir', S(T('pre-'), R(X)), None]]])]
    # evaluated by assertions: only in [assert]
    c['file-matcher-eval'] = lambda X, k: [fmst(k, 'a.txt', ref(X))]
    c['file-matcher-eval-dir'] = lambda X, k: [fmst(k, 'sub', ['or', [ref(X, 'a'), ['type', 'file']]])]
    c['files-matcher-eval'] = lambda X, k: [fsmst(k, ref(X))]
    c['files-matcher-eval-sub'] = lambda X, k: [fmst(k, 'e', ['dir-contents', ref(X, 'a')])]
    c['files-condition-eval'] = lambda X, k: [fsmst(k, ['fmatches', ref(X)])]
    c['fc-fm-eval'] = lambda X, k: [fsmst(k, ['fmatches', ['lit', [[N(T('a.txt')), ref(X)], [N(T('sub')), None]]]])]
    c['text-matcher-eval'] = lambda X, k: [{'k': 'tm', 'id': k, 'tm': ref(X)}]
    c['integer-matcher-eval'] = lambda X, k: [{'k': 'im', 'im': ['or', [ref(X), ['cmp', '==', N(T('99'))]]]}]
    c['pgmname'] = lambda X, k: [defn('program', y(k), ['sys', N(R(X)), []])]
    # the reference comes AFTER an operand that already decides the value of the && / || chain (it is never
    # evaluated, but it is still a reference whose definition and type must be checked)
    c['lm-after-deciding'] = lambda X, k: [filest(k, text_via(['filter', ['or', [
        ['line-num', ['cmp', '==', N(T('1'))]], ['const', True], ref(X)]]]))]
    c['lm-def-after-deciding'] = lambda X, k: [defn('line-matcher', y(k), ['and', [
        ['const', False], ['contents', ['matches', N(T('b'))]], ref(X)]])]
    c['im-after-deciding'] = lambda X, k: [filest(k, text_via(['filter', ['line-num', ['or', [['const', True], ref(X)]]]]))]
    c['tm-def-after-deciding'] = lambda X, k: [defn('text-matcher', y(k), ['and', [['const', False], ['is-empty'], ref(X)]])]
    c['fm-def-after-deciding'] = lambda X, k: [defn('file-matcher', y(k), ['or', [['const', True], ref(X, 'a')]])]
    c['fsm-def-after-deciding'] = lambda X, k: [defn('files-matcher', y(k), ['and', [['const', False], ref(X)]])]
    c['tm-eval-after-deciding'] = lambda X, k: [{'k': 'tm', 'id': k, 'tm': ['or', [['const', True], ref(X)]]}]
    c['fc-name'] = lambda X, k: [defn('files-condition', y(k), ['lit', [[N(R(X)), ['type', 'file']]]])]
    c['fs-ts'] = lambda X, k: [defn('files-source', y(k), ['lit', [['file', N(T('fa')), ['ref', X, 'a', None]]]])]
    return c


CONTEXTS = _ctx_table()
CONTEXT_NAMES = tuple(CONTEXTS)
ASSERT_ONLY = ('file-matcher-eval', 'file-matcher-eval-dir', 'files-matcher-eval', 'files-matcher-eval-sub',
               'files-condition-eval', 'fc-fm-eval', 'text-matcher-eval', 'integer-matcher-eval',
               'tm-eval-after-deciding')
ACT_CONTEXTS = ('arg-soft', 'arg-naked', 'arg-elem', 'arg-eol', 'program')  # statement kinds that can be the [act] program

# which types a context admits *directly* (hard-coded from the manual; used only to enumerate chains cheaply --
# the verdict always comes from the model)
_DATA = {'string', 'list', 'path'}
DIRECT_OK = {
    'arg-soft': _DATA, 'arg-naked': _DATA, 'arg-elem': _DATA, 'arg-elem-soft': _DATA, 'def-string': _DATA,
    'def-string-naked': _DATA, 'arg-eol': _DATA, 'arg-heredoc': _DATA, 'def-string-eol': _DATA,
    'def-string-heredoc': _DATA, 'ts-eol': _DATA, 'ts-heredoc': _DATA, 'def-list': _DATA, 'def-list-soft': _DATA, 'path-rel': {'path'},
    'path-prefix': {'string', 'path'}, 'path-whole': {'string', 'path'}, 'path-suffix': {'string'},
    'path-suffix-sym': {'string'}, 'path-suffix-tail': {'string'}, 'creat': {'path'}, 'creat-only': {'path'}, 'int': {'string'},
    'ts-ref': {'string', 'text-source'}, 'ts-ref-tt': {'string', 'text-source'}, 'ts-str': _DATA, 'regex': _DATA,
    'repl': _DATA, 'equals': {'string', 'text-source'}, 'integer-matcher': {'integer-matcher'},
    'integer-matcher@': {'integer-matcher'}, 'line-matcher': {'line-matcher'}, 'text-matcher': {'text-matcher'},
    'text-transformer': {'text-transformer'}, 'program': {'program'}, 'file-matcher': {'file-matcher'},
    'files-matcher': {'files-matcher'}, 'files-condition': {'files-condition'}, 'files-source': {'files-source'},
    'pgmname': {'string'}, 'fc-name': {'string'}, 'fs-ts': {'string', 'text-source'},
    'files-source-eval': {'files-source'}, 'fs-ts-eval': {'string', 'text-source'}, 'fs-name-eval': {'string'},
    'file-matcher-eval': {'file-matcher'}, 'file-matcher-eval-dir': {'file-matcher'},
    'files-matcher-eval': {'files-matcher'}, 'files-matcher-eval-sub': {'files-matcher'},
    'files-condition-eval': {'files-condition'}, 'fc-fm-eval': {'file-matcher'}, 'text-matcher-eval': {'text-matcher'},
    'integer-matcher-eval': {'integer-matcher'},
    'lm-after-deciding': {'line-matcher'}, 'lm-def-after-deciding': {'line-matcher'},
    'im-after-deciding': {'integer-matcher'}, 'tm-def-after-deciding': {'text-matcher'},
    'fm-def-after-deciding': {'file-matcher'}, 'fsm-def-after-deciding': {'files-matcher'},
    'tm-eval-after-deciding': {'text-matcher'},
}
assert set(DIRECT_OK) == set(CONTEXTS)


def _link_table():
    """name -> (produced type, admitted previous types (directly), f(X) -> value)"""
    li = {}
    li['s:soft'] = ('string', _DATA, lambda X: S(T('<'), R(X), T('>')))
    li['s:naked'] = ('string', _DATA, lambda X: N(R(X)))
    li['s:eol'] = ('string', _DATA, lambda X: E(T('e '), R(X), T(' .')))
    li['s:heredoc'] = ('string', _DATA, lambda X: D(T('d1\nd2 '), R(X), T('\n')))
    li['l:elem'] = ('list', _DATA, lambda X: [N(R(X)), N(T('m'))])
    li['l:soft'] = ('list', _DATA, lambda X: [N(T('k')), S(R(X))])
    li['p:rel'] = ('path', {'path'}, lambda X: {'rel': ['sym', X], 'name': N(T('r'))})
    li['p:prefix'] = ('path', {'path', 'string'}, lambda X: {'rel': None, 'name': N(R(X), T('/s'))})
    li['p:suffix'] = ('path', {'string'}, lambda X: {'rel': 'act', 'name': N(R(X))})
    li['p:suffix-tail'] = ('path', {'string'}, lambda X: {'rel': 'tmp', 'name': N(T('d/'), R(X))})
    li['im:int'] = ('integer-matcher', {'string'}, lambda X: ['cmp', '>=', N(R(X))])
    li['im:ref'] = ('integer-matcher', {'integer-matcher'}, lambda X: ['not', ref(X)])
    li['lm:im'] = ('line-matcher', {'integer-matcher'}, lambda X: ['line-num', ref(X, 'a')])
    li['lm:tm'] = ('line-matcher', {'text-matcher'}, lambda X: ['contents', ref(X)])
    li['lm:ref'] = ('line-matcher', {'line-matcher'}, lambda X: ['or', [ref(X), ['line-num', ['cmp', '==', N(T('4'))]]]])
    li['tm:im'] = ('text-matcher', {'integer-matcher'}, lambda X: ['num-lines', ref(X)])
    li['tm:lm'] = ('text-matcher', {'line-matcher'}, lambda X: ['any-line', ref(X)])
    li['tm:ts'] = ('text-matcher', {'string', 'text-source'}, lambda X: ['equals', ['ref', X, 'a', None]])
    li['tm:tt'] = ('text-matcher', {'text-transformer'}, lambda X: ['transformed', ref(X), ['matches', N(T('B'))]])
    li['tm:regex'] = ('text-matcher', _DATA, lambda X: ['matches', N(R(X))])
    li['tm:ref'] = ('text-matcher', {'text-matcher'}, lambda X: ['not', ref(X, 'a')])
    li['tt:lm'] = ('text-transformer', {'line-matcher'}, lambda X: ['filter', ref(X)])
    li['tt:regex'] = ('text-transformer', _DATA, lambda X: ['grep', S(R(X))])
    li['tt:repl'] = ('text-transformer', _DATA, lambda X: ['replace', N(T('b')), S(R(X))])
    li['tt:ref'] = ('text-transformer', {'text-transformer'}, lambda X: ['seq', [['replace', N(T('c')), N(T('cc'))],
                                                                                  ref(X, 'a')]])
    li['pg:arg'] = ('program', _DATA, lambda X: ['probe', 'plink', [N(T('q')), N(R(X))]])
    li['pg:ref'] = ('program', {'program'}, lambda X: ['pref', X, [N(T('more'))]])
    li['pg:name'] = ('program', {'string'}, lambda X: ['sys', N(R(X)), [N(T('arg'))]])
    li['ts:ref'] = ('text-source', {'string', 'text-source'}, lambda X: ['ref', X, 'a', ['lower']])
    li['ts:str'] = ('text-source', _DATA, lambda X: ['str', S(T('t:'), R(X)), None])
    li['ts:tt'] = ('text-source', {'text-transformer'}, lambda X: text_via(ref(X)))
    li['fm:tm'] = ('file-matcher', {'text-matcher'}, lambda X: ['contents', ref(X)])
    li['fm:fsm'] = ('file-matcher', {'files-matcher'}, lambda X: ['dir-contents', ref(X)])
    li['fm:glob'] = ('file-matcher', _DATA, lambda X: ['not', ['name', N(R(X))]])
    li['fm:ref'] = ('file-matcher', {'file-matcher'}, lambda X: ['and', [ref(X), ['type', 'file']]])
    li['fsm:fm'] = ('files-matcher', {'file-matcher'}, lambda X: ['any-file', ref(X, 'a')])
    li['fsm:im'] = ('files-matcher', {'integer-matcher'}, lambda X: ['num-files', ref(X)])
    li['fsm:fc'] = ('files-matcher', {'files-condition'}, lambda X: ['fmatches', ref(X)])
    li['fsm:ref'] = ('files-matcher', {'files-matcher'}, lambda X: ['not', ref(X)])
    li['fc:fm'] = ('files-condition', {'file-matcher'}, lambda X: ['lit', [[N(T('a.txt')), ref(X)], [N(T('sub')), None]]])
    li['fc:name'] = ('files-condition', {'string'}, lambda X: ['lit', [[S(R(X)), None]]])
    li['fc:ref'] = ('files-condition', {'files-condition'}, lambda X: ref(X))
    li['fs:ts'] = ('files-source', {'string', 'text-source'}, lambda X: ['lit', [['file', N(T('n1')),
                                                                                  ['ref', X, 'a', None]]]])
    li['fs:fs'] = ('files-source', {'files-source'}, lambda X: ['lit', [['dir', N(T('n1')), ref(X)]]])
    li['fs:name'] = ('files-source', {'string'}, lambda X: ['lit', [['file', N(T('pre-'), R(X)), None]]])
    li['fs:ref'] = ('files-source', {'files-source'}, lambda X: ref(X, 'a'))
    return li


LINKS = _link_table()
LINK_NAMES = tuple(LINKS)

ORDER_TYPES = ('string', 'list', 'path', 'text-transformer')
NONACT = ('setup', 'before-assert', 'assert', 'cleanup')
PLACEMENTS = ('before', 'earlier-phase', 'after', 'later-phase', 'file-reversed', 'act-after-setup',
              'act-before-def')


# =============================================================================================================
# enumeration of cases (cheap: descriptors only)
# =============================================================================================================
def _chains():
    for d in DEF_KINDS:
        t0 = std_value(d)[0]
        for k1 in LINK_NAMES:
            t1, ok1, _f = LINKS[k1]
            if t0 not in ok1:
                continue
            yield d, [k1]
            for k2 in LINK_NAMES:
                _t2, ok2, _f2 = LINKS[k2]
                if t1 in ok2:
                    yield d, [k1, k2]


def cases(tier, seed):
    for c in _fan_cases():
        yield c
    # ---- matrix
    for c in CONTEXT_NAMES:
        for d in DEF_KINDS:
            for pl in PLACEMENTS:
                if pl.startswith('act') and c not in ACT_CONTEXTS:
                    continue
                yield {'part': 'matrix', 'd': d, 'c': c, 'pl': pl}
        for d in SPECIALS + EXTRA_DEF_KINDS:
            yield {'part': 'matrix', 'd': d, 'c': c, 'pl': 'before'}
            if c in ACT_CONTEXTS:
                yield {'part': 'matrix', 'd': d, 'c': c, 'pl': 'act-after-setup'}
    # ---- order
    for t in ORDER_TYPES:
        for p0, pu in itertools.product(NONACT, M.PHASES):
            if pu == 'act' and t == 'text-transformer':
                continue  # a transformer cannot be an argument of the [act] program
            for perm in itertools.permutations(range(2)):
                yield {'part': 'order', 't': t, 'ph': [p0, pu], 'perm': list(perm)}
        for p0, p1, pu in itertools.product(NONACT, NONACT, M.PHASES):
            if pu == 'act' and t == 'text-transformer':
                continue
            for perm in itertools.permutations(range(3)):
                yield {'part': 'order', 't': t, 'ph': [p0, p1, pu], 'perm': list(perm)}
    # ---- dup
    for p0, p1 in itertools.product(NONACT, NONACT):
        for first_in_file in (0, 1):
            for pair in (('string', 'string'), ('string', 'list'), ('path', 'text-matcher'), ('program', 'program')):
                yield {'part': 'dup', 'kind': 'twice', 'ph': [p0, p1], 'first': first_in_file, 'types': list(pair)}
    for i, b in enumerate(M.BUILTIN_NAMES):
        for j, d in enumerate(DEF_KINDS):
            yield {'part': 'dup', 'kind': 'builtin', 'name': b, 'd': d, 'ph': NONACT[(i + j) % 4],
                   'used': (i + j) % 2 == 0}
    # ---- cd: a path relative the current directory is evaluated where it is referenced
    for rel in ('cd', None, 'act', 'tmp'):
        for p_def, p_cd, p_use in itertools.product(('setup', 'before-assert'), ('setup', 'before-assert', 'assert'),
                                                    M.PHASES):
            for order in ('def-cd-use', 'cd-def-use', 'def-use-cd'):
                yield {'part': 'cd', 'rel': rel, 'ph': [p_def, p_cd, p_use], 'order': order}
    # ---- twice: one statement, the same symbol in two contexts
    for shape in TWICE:
        for d in DEF_KINDS:
            for rev in (False, True):
                for deep in (0, 1):
                    yield {'part': 'twice', 'd': d, 'shape': shape, 'rev': rev, 'deep': deep}
    # ---- chain
    for d, links in _chains():
        yield {'part': 'chain', 'd': d, 'links': links}
    # ---- seeded
    for i in range(N_RAND[tier]):
        yield {'part': 'rand', 'seed': seed, 'i': i}


# =============================================================================================================
# builders: descriptor -> [(class key, program)]
# =============================================================================================================
MARK = {'ph': 'setup', 'k': 'args', 'id': 'mark', 'a': [N(T('marker'))]}
ACT0 = {'ph': 'act', 'k': 'args', 'id': 'act', 'a': []}


def _with_ph(stmts, ph):
    ret = []
    for st in stmts:
        st = dict(st)
        st['ph'] = ph
        ret.append(st)
    return ret


def _finish(stmts):
    """adds the marker (first statement of [setup], first in the file) and a default [act]"""
    stmts = [dict(MARK)] + list(stmts)
    if not any(st['ph'] == 'act' for st in stmts):
        stmts.append(dict(ACT0))
    return {'stmts': stmts}


def build_matrix(case):
    d, c, pl = case['d'], case['c'], case['pl']
    if d in SPECIALS:
        X = SPECIAL_NAME[d]
        xdef = []
    else:
        X = 'X0'
        t, v = std_value(d)
        xdef = [defn(t, X, v)]
    use = CONTEXTS[c](X, 'u1')
    if c in ASSERT_ONLY:
        # the reference is evaluated by an assertion, so it stays in [assert]; the definition moves around it
        if pl == 'before':
            stmts = _with_ph(xdef, 'assert') + _with_ph(use, 'assert')
        elif pl == 'earlier-phase':
            stmts = _with_ph(xdef, 'setup') + _with_ph(use, 'assert')
        elif pl == 'after':
            stmts = _with_ph(use, 'assert') + _with_ph(xdef, 'assert')
        elif pl == 'later-phase':
            stmts = _with_ph(xdef, 'cleanup') + _with_ph(use, 'assert')
        elif pl == 'file-reversed':
            stmts = _with_ph(use, 'assert') + _with_ph(xdef, 'before-assert')
        else:
            raise ValueError(pl)
        return [(('matrix', d, c, pl), _finish(stmts))]
    if pl == 'before':
        stmts = _with_ph(xdef, 'setup') + _with_ph(use, 'setup')
    elif pl == 'earlier-phase':
        stmts = _with_ph(xdef, 'before-assert') + _with_ph(use, 'cleanup')
    elif pl == 'after':
        stmts = _with_ph(use, 'before-assert') + _with_ph(xdef, 'before-assert')
    elif pl == 'later-phase':
        stmts = _with_ph(xdef, 'assert') + _with_ph(use, 'setup')
    elif pl == 'file-reversed':
        stmts = _with_ph(use, 'assert') + _with_ph(xdef, 'setup')
    elif pl == 'act-after-setup':
        stmts = _with_ph(xdef, 'setup') + _with_ph(use, 'act')
    elif pl == 'act-before-def':
        stmts = _with_ph(use, 'act') + _with_ph(xdef, 'before-assert')
    else:
        raise ValueError(pl)
    return [(('matrix', d, c, pl), _finish(stmts))]


def _order_stmts(t):
    """definition X0, definition X1 built from X0, use of the last one"""
    if t == 'string':
        return (defn('string', 'X0', S(T('s 0'))), defn('string', 'X1', N(R('X0'), T('+1'))),
                lambda X: args('u', [N(R(X)), S(T('q '), R(X))]))
    if t == 'list':
        return (defn('list', 'X0', [N(T('i')), S(T('j k'))]), defn('list', 'X1', [N(R('X0')), N(T('l'))]),
                lambda X: args('u', [N(R(X)), S(R(X))]))
    if t == 'path':
        return (defn('path', 'X0', {'rel': 'tmp', 'name': N(T('d0'))}),
                defn('path', 'X1', {'rel': ['sym', 'X0'], 'name': N(T('d1'))}),
                lambda X: args('u', [N(R(X)), N(T('p='), R(X))]))
    if t == 'text-transformer':
        return (defn('text-transformer', 'X0', ['upper']),
                defn('text-transformer', 'X1', ['seq', [['grep', N(T('b'))], ref('X0')]]),
                lambda X: filest('u', text_via(ref(X))))
    raise ValueError(t)


def build_order(case):
    t, phs, perm = case['t'], case['ph'], case['perm']
    d0, d1, use = _order_stmts(t)
    if len(phs) == 2:
        sts = [d0, use('X0')]
    else:
        sts = [d0, d1, use('X1')]
    placed = []
    for st, ph in zip(sts, phs):
        st = dict(st)
        st['ph'] = ph
        placed.append(st)
    stmts = [placed[i] for i in perm]
    return [(('order', t, '>'.join(phs), ''.join(str(i) for i in perm)), _finish(stmts))]


def build_dup(case):
    if case['kind'] == 'twice':
        t0, t1 = case['types']
        v0 = std_value(t0)[1]
        v1 = std_value(t1)[1]
        s0 = dict(defn(t0, 'X0', v0), ph=case['ph'][0])
        s1 = dict(defn(t1, 'X0', v1), ph=case['ph'][1])
        stmts = [s0, s1] if case['first'] == 0 else [s1, s0]
        return [(('dup', 'twice', t0, t1, '>'.join(case['ph']), case['first']), _finish(stmts))]
    t, v = std_value(case['d'])
    stmts = [dict(defn(t, case['name'], v), ph=case['ph'])]
    if case['used']:
        stmts.append(dict(args('u', [S(R(case['name']))]), ph='cleanup'))
    return [(('dup', 'builtin', case['name'], case['d'], case['ph']), _finish(stmts))]


def build_cd(case):
    p_def, p_cd, p_use = case['ph']
    d = dict(defn('path', 'X0', {'rel': case['rel'], 'name': N(T('leaf'))}), ph=p_def)
    c = {'ph': p_cd, 'k': 'cd', 'to': 'sub'}
    u = dict(args('u', [N(R('X0')), S(T('in '), R('X0'))]), ph=p_use)
    u0 = dict(args('u0', [N(R('X0'))]), ph=p_def)  # a reference right after the definition
    stmts = {'def-cd-use': [d, u0, c, u], 'cd-def-use': [c, d, u0, u], 'def-use-cd': [d, u0, u, c]}[case['order']]
    return [(('cd', str(case['rel']), '>'.join(case['ph']), case['order']), _finish(stmts))]


def _chain_defs(case):
    t, v = std_value(case['d'])
    defs = [defn(t, 'X0', v)]
    last_t = t
    for i, k in enumerate(case['links']):
        lt, _ok, f = LINKS[k]
        defs.append(defn(lt, 'X%d' % (i + 1), f('X%d' % i)))
        last_t = lt
    return defs, last_t


def build_chain(case):
    """the chain + every use context: one batch program with all uses the model accepts, one program per rejected use
    (all of them for 1 intermediate; for 2 intermediates the indirect rejections and a rotating sample of 2 direct
    mismatches), the bare chain if the chain itself is rejected."""
    defs, last_t = _chain_defs(case)
    last = 'X%d' % (len(defs) - 1)
    key0 = ('chain', case['d']) + tuple(case['links'])
    base = _with_ph(defs[:1], 'setup') + _with_ph(defs[1:2], 'setup') + _with_ph(defs[2:], 'before-assert')
    use_ph = 'assert'
    v, _info = M.analyse(_finish(base))
    if v != 'accept':
        return [(key0 + ('-',), _finish(base))] if v == 'reject' else []
    ret = []
    batch = []
    rot = sum(map(ord, ''.join(case['links']) + case['d']))
    n_direct = 0
    for j, c in enumerate(CONTEXT_NAMES):
        use = _with_ph(CONTEXTS[c](last, 'u%d' % j), use_ph)
        v, info = M.analyse(_finish(base + use))
        if v == 'accept':
            if any(set(rr) & _HDS_ROOTS for rr in info['regex_roots'].values()):
                # REGEX built from a home-relative path: kept apart so that the other uses stay observable
                ret.append((key0 + (c,), _finish(base + use)))
            else:
                batch += use
        elif v == 'reject':
            direct_ok = last_t in DIRECT_OK[c]
            if len(defs) == 2 or direct_ok:
                ret.append((key0 + (c,), _finish(base + use)))
            elif (j + rot) % 12 == 0 and n_direct < 2:
                n_direct += 1
                ret.append((key0 + (c,), _finish(base + use)))
    if batch:
        ret.insert(0, (key0 + ('accepted-uses',), _finish(base + batch)))
    return ret


# ---- one statement that references the same symbol twice, in contexts that demand different types ---------------
def _twice_table():
    """name -> (phase, f(X, k) -> [contexts in which X is referenced, each as a function building a piece])"""
    t = {}

    def y(k):
        return 'Y' + k

    def two(a, b, rev):
        return [b, a] if rev else [a, b]

    t['fs-contents+name'] = ('setup', lambda X, k, rev: [dirst(k, ['lit', two(
        ['file', N(T('fa')), ['str', S(R(X)), None]], ['file', N(T('n-'), R(X)), None], rev)])])
    t['fs-contents+dirname'] = ('setup', lambda X, k, rev: [dirst(k, ['lit', two(
        ['file', N(T('fb')), ['str', S(T('v '), R(X)), None]], ['dir', S(T('pre-'), R(X)), None], rev)])])
    t['tm-regex+equals'] = ('assert', lambda X, k, rev: [{'k': 'tm', 'id': k, 'tm': ['or', two(
        ['matches', N(R(X))], ['equals', ['ref', X, 'a', None]], rev)]}])
    t['program+argument'] = ('setup', lambda X, k, rev: [runst(['pref', X, [N(T('x' + k)), N(R(X))]])])
    t['ts-ref+replacement'] = ('setup', lambda X, k, rev: [filest(k, ['ref', X, 'a', ['replace', N(T('b')), N(R(X))]])])
    t['rel-symbol+name'] = ('setup', lambda X, k, rev: [defn('path', y(k), {'rel': ['sym', X], 'name': N(R(X))}),
                                                        args(k, [N(R(y(k)))])])
    t['regex+integer'] = ('setup', lambda X, k, rev: [filest(k, text_via(['filter', ['and', two(
        ['contents', ['matches', N(R(X))]], ['line-num', ['cmp', '==', N(R(X))]], rev)]]))])
    t['arg+arg-list'] = ('setup', lambda X, k, rev: [args(k, two(S(T('s '), R(X)), N(R(X)), rev))])
    t['ts-str+transformer'] = ('setup', lambda X, k, rev: [filest(k, ['str', S(R(X)), ref(X)])])
    t['list-elem+path-name'] = ('setup', lambda X, k, rev: [
        defn('list', y(k), two(S(R(X)), N(T('z')), rev)),
        defn('path', 'Z' + k, {'rel': 'tmp', 'name': N(R(X))}), args(k, [N(R(y(k))), N(R('Z' + k))])])
    return t


TWICE = _twice_table()


def build_twice(case):
    d, shape, rev, deep = case['d'], case['shape'], case['rev'], case['deep']
    t, v = std_value(d)
    stmts = _with_ph([defn(t, 'X0', v)], 'setup')
    X = 'X0'
    if deep:
        if t not in ('string', 'list', 'path'):
            return []
        stmts += _with_ph([defn('string', 'X1', S(R('X0')))], 'setup')
        X = 'X1'
    ph, f = TWICE[shape]
    try:
        use = f(X, 'u1', rev)
    except Exception:
        return []
    stmts += _with_ph(use, ph)
    return [(('twice', d, shape, 'rev' if rev else 'fwd', 'deep' if deep else 'direct'), _finish(stmts))]


# ---- seeded programs -----------------------------------------------------------------------------------------
_WORDS = ('a', 'b', 'cB', 'd', 'Ab', 'x1', 'w_2', 'k-k', 'e.f', 'm/n')
_SOFT_WORDS = ('a b', ' lead', 'trail ', 'two  blanks', 'x:y', '')
_LOOKALIKES = ('@[X ]@', '@[NOT/VALID]@', '@[A', 'B]@')
_NAMES = ('A', 'B', 'C', 'D', 'E_1', 'f')


def _merge(frags):
    ret = []
    for f in frags:
        if ret and ret[-1][0] == 't' and f[0] == 't':
            ret[-1] = T(ret[-1][1] + f[1])
        else:
            ret.append(f)
    return ret


class _Gen:
    def __init__(self, rng):
        self.rng = rng
        self.declared = []  # (name, type, is_int_literal)
        self.future = []  # names of definitions still to come
        self.n_uid = 0

    def uid(self, p='u'):
        self.n_uid += 1
        return '%s%d' % (p, self.n_uid)

    def pick(self, types_ok, want_int=False):
        """a name to reference where one of `types_ok` is wanted; None = use a literal instead"""
        rng = self.rng
        r = rng.random()
        good = [n for n, t, il in self.declared if t in types_ok and (il or not want_int)]
        if r < 0.88:
            if good:
                return good[-1] if rng.random() < 0.5 else rng.choice(good)
            if rng.random() < 0.8:
                return None
            r = 0.88 + rng.random() * 0.12
        if r < 0.92:
            b = [n for n in M.BUILTIN_STRINGS if 'string' in types_ok and not want_int] + \
                [n for n in M.BUILTIN_PATHS if 'path' in types_ok]
            if b:
                return rng.choice(b)
            return None
        if r < 0.95 and self.declared:
            return rng.choice(self.declared)[0]
        if r < 0.975:
            return rng.choice(self.future) if self.future and rng.random() < 0.7 else 'UNDEF'
        return None

    # data ---------------------------------------------------------------------------------------------------
    def token(self, types_ok=('string', 'list', 'path'), nmax=3, int_lit=False, plain=False):
        rng = self.rng
        if int_lit:
            n = self.pick(('string',), want_int=True) if rng.random() < 0.6 else None
            return N(R(n)) if n else N(T(str(rng.choice((0, 1, 2, 3, 4, 7)))))
        if not plain and rng.random() < 0.06:
            return H(rng.choice(_LOOKALIKES + ('@[A]@', '@[UNDEF]@', 'h q')))
        soft = rng.random() < 0.45
        frags = []
        for _ in range(rng.randint(1, nmax)):
            if rng.random() < 0.55:
                n = self.pick(types_ok)
                if n:
                    frags.append(R(n))
                    continue
            if soft and rng.random() < 0.3:
                frags.append(T(rng.choice(_SOFT_WORDS)))
            elif not plain and rng.random() < 0.05:
                frags.append(T(rng.choice(_LOOKALIKES)))
            else:
                frags.append(T(rng.choice(_WORDS)))
        # adjacent text fragments are merged so that no look-alike halves combine into a reference
        merged = []
        for f in frags:
            if merged and merged[-1][0] == 't' and f[0] == 't':
                merged[-1] = T(merged[-1][1] + ('' if soft else '_') + f[1])
            else:
                merged.append(f)
        body = ''.join(M.r_frag(f) for f in merged)
        if M._REF_RE.sub('', ''.join(f[1] for f in merged if f[0] == 't')) != ''.join(
                f[1] for f in merged if f[0] == 't'):
            return N(T('w'))
        if not soft and (body == '' or any(ch.isspace() for ch in body)):
            soft = True
        return [('s' if soft else 'n'), merged]

    def lst(self):
        return [self.token() for _ in range(self.rng.choice((0, 1, 1, 2, 2, 3)))]

    def rich(self):
        """a RICH-STRING of the forms ':> TEXT' / here document"""
        rng = self.rng

        def piece():
            if rng.random() < 0.6:
                n = self.pick(('string', 'list', 'path'))
                if n:
                    return R(n)
            return T(rng.choice(('a', 'cB', 'x1', 'w_2', 'e.f')))

        if rng.random() < 0.5:
            frags = [T(rng.choice(('e', 'x1')))]
            for _ in range(rng.randint(1, 3)):
                frags += [T(rng.choice((' ', '  ', '-'))), piece()]
            frags.append(T(rng.choice((' z', '.'))))
            return ['e', _merge(frags)]
        frags = []
        for _ in range(rng.randint(1, 3)):
            frags.append(T(rng.choice(('l', 'Ab c'))))
            for _ in range(rng.randint(0, 2)):
                frags += [T(' '), piece()]
            frags.append(T('\n'))
        return ['d', _merge(frags)]

    def fname(self):
        rng = self.rng
        if rng.random() < 0.65:
            return N(T(rng.choice(('n1', 'dir/n2', 'e.txt'))))
        n = self.pick(('string',))
        if not n:
            return N(T('n3'))
        return rng.choice((N(R(n)), N(T('pre-'), R(n)), S(R(n), T('/t')), N(T('d/'), R(n))))

    def path(self):
        rng = self.rng
        r = rng.random()
        if r < 0.45:
            return {'rel': rng.choice(('home', 'act-home', 'act', 'tmp', 'result', 'cd', 'here')), 'name': self.fname()}
        if r < 0.70:
            n = self.pick(('path',))
            if n:
                return {'rel': ['sym', n], 'name': self.fname()}
        if r < 0.88:
            n = self.pick(('path',))
            if n:
                return {'rel': None, 'name': rng.choice((N(R(n)), N(R(n), T('/sub')), S(R(n), T('/s u'))))}
        return {'rel': None, 'name': self.fname()}

    # logic --------------------------------------------------------------------------------------------------
    def _boolean(self, typ, prim, depth):
        rng = self.rng
        r = rng.random()
        if r < 0.40:
            n = self.pick((typ,))
            if n:
                return ref(n, rng.choice('pa'))
        if depth <= 0 or r < 0.75:
            return prim(depth)
        if r < 0.80:
            return ['const', rng.random() < 0.5]
        if r < 0.88:
            return ['not', self._boolean(typ, prim, depth - 1)]
        return [rng.choice(('and', 'or')), [self._boolean(typ, prim, depth - 1) for _ in range(2)]]

    def im(self, depth=1):
        return self._boolean('integer-matcher',
                             lambda d: ['cmp', self.rng.choice(('==', '!=', '<', '<=', '>', '>=')),
                                        self.token(int_lit=True)], depth)

    def lm(self, depth=1):
        def prim(d):
            if self.rng.random() < 0.5:
                return ['line-num', self.im(d - 1)]
            return ['contents', self.tm(d - 1, in_line=True)]

        return self._boolean('line-matcher', prim, depth)

    def regex(self):
        if self.rng.random() < 0.5:
            return N(T(self.rng.choice(('b', 'B', 'A', 'c', 'd', 'zz'))))
        return self.token(nmax=1, plain=True)

    def tm(self, depth=1, in_line=False):
        def prim(d):
            r = self.rng.random()
            if in_line or r < 0.35:
                return ['matches', self.regex()]
            if r < 0.45:
                return ['equals', self.ts(0)]
            if r < 0.60:
                return ['num-lines', self.im(d - 1)]
            if r < 0.80:
                return [self.rng.choice(('any-line', 'every-line')), self.lm(d - 1)]
            if r < 0.85:
                return ['is-empty']
            return ['transformed', self.tt(d - 1), self.tm(d - 1)]

        return self._boolean('text-matcher', prim, depth)

    def tt(self, depth=1):
        rng = self.rng
        r = rng.random()
        if r < 0.35:
            n = self.pick(('text-transformer',))
            if n:
                return ref(n, rng.choice('pa'))
        if r < 0.50:
            return [rng.choice(('upper', 'lower', 'identity'))]
        if r < 0.65:
            return ['filter', self.lm(depth - 1)]
        if r < 0.75:
            return ['grep', self.regex()]
        if r < 0.88 or depth <= 0:
            return ['replace', self.regex(), self.token(nmax=2, plain=True)]
        return ['seq', [self.tt(depth - 1) for _ in range(2)]]

    def ts(self, depth=1):
        rng = self.rng
        tt = self.tt(depth - 1) if (depth > 0 and rng.random() < 0.4) else None
        if rng.random() < 0.45:
            n = self.pick(('string', 'text-source'))
            if n:
                return ['ref', n, 'a', tt]
        if tt is not None and rng.random() < 0.5:
            return text_via(tt)
        if tt is None and depth > 0 and rng.random() < 0.15:
            return ['str', self.rich(), None]
        return ['str', self.token(), tt]

    def pgm(self):
        rng = self.rng
        if rng.random() < 0.5:
            n = self.pick(('program',))
            if n:
                return ['pref', n, self.lst()]
        return ['probe', self.uid('p'), self.lst()]

    def fm(self, depth=1):
        def prim(d):
            r = self.rng.random()
            if r < 0.3:
                return ['type', self.rng.choice(('file', 'dir'))]
            if r < 0.5:
                return ['name', N(T(self.rng.choice(('a.txt', 'b', 'sub', 'zz'))))
                        if self.rng.random() < 0.6 else self.token(nmax=1, plain=True)]
            if r < 0.8:
                return ['contents', self.tm(d - 1)]
            return ['dir-contents', self.fsm(d - 1)]

        return self._boolean('file-matcher', prim, depth)

    def fsm(self, depth=1):
        def prim(d):
            r = self.rng.random()
            if r < 0.2:
                return ['is-empty']
            if r < 0.45:
                return ['num-files', self.im(d - 1)]
            if r < 0.8 or d <= 0:
                return [self.rng.choice(('every-file', 'any-file')), self.fm(d - 1)]
            return ['fmatches', self.fc()]

        return self._boolean('files-matcher', prim, depth)

    def _lit_name(self):
        n = self.pick(('string',)) if self.rng.random() < 0.35 else None
        return N(T('e_'), R(n)) if n else N(T(self.rng.choice(('n1', 'n2', 'n3', 'a.txt', 'b', 'sub', 'e', 'd/n4'))))

    def fc(self):
        if self.rng.random() < 0.4:
            n = self.pick(('files-condition',))
            if n:
                return ref(n, self.rng.choice('pa'))
        return ['lit', [[self._lit_name(), (self.fm(0) if self.rng.random() < 0.5 else None)]
                        for _ in range(self.rng.randint(1, 2))]]

    def fs(self, depth=1):
        rng = self.rng
        if rng.random() < 0.4:
            n = self.pick(('files-source',))
            if n:
                return ref(n, rng.choice('pa'))
        ents = []
        for _ in range(rng.randint(1, 2)):
            if rng.random() < 0.6 or depth <= 0:
                ents.append(['file', self._lit_name(), (self.ts(0) if rng.random() < 0.6 else None)])
            else:
                ents.append(['dir', self._lit_name(), (self.fs(depth - 1) if rng.random() < 0.6 else None)])
        return ['lit', ents]

    def value(self, typ):
        if typ == 'string':
            if self.rng.random() < 0.2:
                return N(T(str(self.rng.choice((0, 1, 2, 3, 4))))), True
            if self.rng.random() < 0.15:
                return self.rich(), False
            return self.token(), False
        f = {'list': self.lst, 'path': self.path, 'integer-matcher': self.im, 'line-matcher': self.lm,
             'text-matcher': self.tm, 'text-transformer': self.tt, 'text-source': self.ts, 'program': self.pgm,
             'file-matcher': self.fm, 'files-matcher': self.fsm, 'files-condition': self.fc, 'files-source': self.fs}
        return f[typ](), False

    def use(self, ph):
        rng = self.rng
        r = rng.random()
        if ph == 'act':
            if r < 0.7:
                return args('act', self.lst() + [self.token() if rng.random() < 0.85 else self.rich()])
            return runst(self.pgm())
        if ph == 'assert' and r < 0.35:
            r2 = rng.random()
            if r2 < 0.3:
                return {'k': 'tm', 'id': self.uid(), 'tm': self.tm(1)}
            if r2 < 0.5:
                return {'k': 'im', 'im': self.im(1)}
            if r2 < 0.75:
                return fmst(self.uid(), rng.choice(('a.txt', 'a.txt', 'b', 'sub', 'e')), self.fm(1))
            return fsmst(self.uid(), self.fsm(1))
        if rng.random() < 0.08:
            return dirst(self.uid(), self.fs(1))
        if r < 0.55:
            return args(self.uid(), [self.token()] + self.lst() + ([self.rich()] if rng.random() < 0.15 else []))
        if r < 0.85:
            rel = self.pick(('path',)) if rng.random() < 0.35 else None
            return filest(self.uid(), self.ts(1), rel=rel)
        return runst(self.pgm())


_TYPE_WEIGHTS = (('string', 5), ('list', 4), ('path', 4), ('text-transformer', 2), ('text-matcher', 2),
                 ('integer-matcher', 2), ('line-matcher', 2), ('program', 2), ('text-source', 2), ('file-matcher', 1),
                 ('files-matcher', 1), ('files-condition', 1), ('files-source', 1))
_TYPE_POP = [t for t, w in _TYPE_WEIGHTS for _ in range(w)]


def gen_random(rng):
    """-> (program, features)"""
    n = rng.randint(2, 7)
    phs = sorted((rng.choice(('setup', 'setup', 'setup', 'act', 'before-assert', 'assert', 'assert', 'cleanup'))
                  for _ in range(n)), key=M.PHASES.index)
    seen_act = False
    for i, p in enumerate(phs):
        if p == 'act':
            if seen_act:
                phs[i] = 'before-assert'
            seen_act = True
    phs.sort(key=M.PHASES.index)
    g = _Gen(rng)
    kinds = []
    for i, p in enumerate(phs):
        kinds.append('use' if p == 'act' or (i > 0 and rng.random() < 0.42) else 'def')
    if 'use' not in kinds:
        kinds[-1] = 'use'
    names = list(_NAMES)
    rng.shuffle(names)
    def_names = {}
    for i, k in enumerate(kinds):
        if k == 'def':
            def_names[i] = names.pop() if names else 'G%d' % i
    stmts = []
    for i, (p, k) in enumerate(zip(phs, kinds)):
        g.future = [def_names[j] for j in def_names if j >= i]  # includes the name being defined (self reference)
        if k == 'def':
            typ = rng.choice(_TYPE_POP)
            v, il = g.value(typ)
            st = defn(typ, def_names[i], v)
            g.declared.append((def_names[i], typ, il))
        else:
            st = g.use(p)
        st['ph'] = p
        stmts.append(st)
    feats = []
    # duplicates
    r = rng.random()
    defs = [st for st in stmts if st['k'] == 'def']
    if r < 0.04 and len(defs) >= 2:
        a, b = rng.sample(defs, 2)
        a['n'] = b['n']
        feats.append('dup')
    elif r < 0.06 and defs:
        rng.choice(defs)['n'] = rng.choice(M.BUILTIN_NAMES)
        feats.append('dup-builtin')
    # file order
    r = rng.random()
    if r < 0.30:
        order = list(range(len(stmts)))
        feats.append('in-order')
    elif r < 0.60:
        blocks = {}
        for i, st in enumerate(stmts):
            blocks.setdefault(st['ph'], []).append(i)
        keys = list(blocks)
        rng.shuffle(keys)
        order = [i for k in keys for i in blocks[k]]
        feats.append('blocks-shuffled')
    elif r < 0.92:
        # random interleaving that keeps the order inside every phase
        queues = {}
        for i, st in enumerate(stmts):
            queues.setdefault(st['ph'], []).append(i)
        order = []
        while queues:
            k = rng.choice(sorted(queues))
            order.append(queues[k].pop(0))
            if not queues[k]:
                del queues[k]
        feats.append('interleaved')
    else:
        order = list(range(len(stmts)))
        rng.shuffle(order)
        feats.append('shuffled')
    stmts = [stmts[i] for i in order]
    if rng.random() < 0.05:
        # move one non-act statement to another phase
        cands = [st for st in stmts if st['ph'] != 'act' and st['k'] not in ('tm', 'im', 'fm', 'fsm')]
        if cands:
            rng.choice(cands)['ph'] = rng.choice(NONACT)
            feats.append('moved')
    return _finish(stmts), feats


def _cleanup_after_known_crash_is_defined(prog, m, info):
    """The known defect (see KNOWN) stops a valid program at the first instruction whose REGEX depends on a
    home-relative path; [cleanup] is executed nevertheless.  If [cleanup] then needs a symbol whose `def` was
    skipped, Exactly ends in INTERNAL_ERROR there (DESIGN 3/C08, false-alarm guards: outside the quantifier) and the
    report would no longer show the known mechanism.  Such programs are not generated by the seeded part."""
    order = M.execution_order(prog)
    trig = [n for n, i in enumerate(order) if set(info['regex_roots'].get(i, ())) & _HDS_ROOTS]
    if not trig:
        return True
    stmts = prog['stmts']
    skipped = {stmts[i]['n'] for n, i in enumerate(order)
               if n > trig[0] and stmts[i]['k'] == 'def' and stmts[i]['ph'] != 'cleanup'}
    if stmts[order[trig[0]]]['ph'] == 'cleanup' or not skipped:
        return True

    def needs(name, seen):
        if name in skipped:
            return True
        if name in seen:
            return False
        seen.add(name)
        return any(needs(n, seen) for n, _c, _t in m.env[name].refs)

    for i in order:
        if stmts[i]['ph'] == 'cleanup' and any(needs(n, set()) for n, _c, _t in M.refs_of_stmt(stmts[i])):
            return False
    return True


def build_rand(case):
    for attempt in range(40):
        rng = common.rng_for(case['seed'], ID, 'rand', case['i'], attempt)
        prog, feats = gen_random(rng)
        m = M.Model()
        try:
            info = m.run(prog)
        except M.Unspecified:
            continue
        except M.Rejected:
            return [(('rand',) + tuple(feats), prog)]
        if not _cleanup_after_known_crash_is_defined(prog, m, info):
            continue
        return [(('rand',) + tuple(feats), prog)]
    return []


BUILDERS = {'twice': build_twice, 'cd': build_cd, 'matrix': build_matrix, 'order': build_order, 'dup': build_dup, 'chain': build_chain, 'rand': build_rand}


# =============================================================================================================
# execution and decision
# =============================================================================================================
import re  # noqa: E402

_LINE_RE = re.compile(r't\.case, line (\d+)')
_EFFECT_EVENTS = ('tempfile.mkdtemp', 'os.mkdir', 'subprocess.Popen', 'open-w', 'os.remove', 'os.rename',
                  'shutil.rmtree', 'shutil.copyfile', 'os.symlink', 'os.putenv', 'os.system', 'os.posix_spawn', 'os.fork')


_TREE_PY = '''import json, os, sys
root, out, ident = sys.argv[1], sys.argv[2], sys.argv[3]
ents = []
for dp, dns, fns in os.walk(root):
    for n in dns:
        ents.append([os.path.relpath(os.path.join(dp, n), root), 'd'])
    for n in fns:
        p = os.path.join(dp, n)
        with open(p, 'rb') as f:
            ents.append([os.path.relpath(p, root), 'f', f.read().decode('utf-8', 'replace')])
with open(out, 'a') as f:
    f.write(json.dumps([ident, sorted(ents)]) + chr(10))
'''


def _read_trees(path):
    import json
    if not os.path.exists(path):
        return []
    with open(path) as f:
        return [json.loads(l) for l in f if l.strip()]


def setup_worker(ctx):
    probe.ensure_probe()


def _roots(case_dir, sds):
    return {'home': case_dir, 'act-home': case_dir, 'here': case_dir, 'act': sds + '/act', 'tmp': sds + '/tmp',
            'result': sds + '/result', 'cd': sds + '/act'}


def _features(prog, verdict, info):
    n = len(prog['stmts']) - 2
    if verdict == 'reject':
        return ('reject', info.kind, info.ctx)
    return ('accept', 'n=%d' % min(n, 8))


_EXEC_COUNT = [0]
_SYM_NAME_RE = re.compile(r'(?<![A-Za-z0-9_])([XYZWVU])(\d+[a-z]?)(?![A-Za-z0-9_])')
_NON_ASCII = ['é', 'ö', 'π', '名', 'Ж', 'ß', '٣']


def execute_program(prog, ctx):
    """-> dict(status='ok'|'unspec'|'inconclusive', verdict=, viol=[...], sample=...)"""
    ses = ctx.get_session()
    d = ses.new_case_dir({})
    rec = os.path.join(d, 'rec')
    guess = _roots(d, os.path.join(ses.tmpdir, 'exactly-xxxxxxxx'))
    verdict, info = M.analyse(prog, guess)
    out = {'status': 'ok', 'verdict': verdict, 'viol': [], 'info': info}
    if verdict == 'unspec':
        ses.drop(d)
        out['status'] = 'unspec'
        return out
    line_map = []
    text = M.render(prog, probe.PROBE, rec, info['neg'] if verdict == 'accept' else None, line_map)
    # every fourth program: the user-defined symbols get names with letters and digits outside ASCII (a symbol name is
    # a word of letters, digits and `_`; the names play no part in what the program denotes)
    _EXEC_COUNT[0] += 1
    if _EXEC_COUNT[0] % 4 == 0:
        renamed = _SYM_NAME_RE.sub(lambda m: m.group(1) + _NON_ASCII[(ord(m.group(1)) + len(m.group(2))) % len(_NON_ASCII)]
                                   + m.group(2), text)
        if renamed != text:
            ctx.count('c08.programs_with_non_ascii_symbol_names')
            text = renamed
    case_file = os.path.join(d, 't.case')
    with open(case_file, 'w', encoding='utf-8', newline='') as f:
        f.write(text)
    if any(st['k'] == 'dir' for st in prog['stmts']):
        with open(os.path.join(d, 'tree.py'), 'w') as f:
            f.write(_TREE_PY)
    r = ses.run([case_file], cwd=d, mode='normal')
    records = probe.read_records(rec)
    trees = _read_trees(rec + '.tree')
    shown = text.replace(probe.PROBE, 'PROBE').replace(rec, 'REC')

    def bad(msg, **detail):
        det = {'case_text': shown, 'model_verdict': verdict, 'observed': r.brief()}
        det.update(detail)
        out['viol'].append({'what': 'C08 ' + msg, 'detail': det})

    try:
        if r.timed_out:
            out['status'] = 'inconclusive'
            return out
        if r.exc is not None:
            bad('exception escaped MainProgram.execute')
            return out
        ident = r.out[:-1] if r.out.endswith('\n') else r.out
        if verdict == 'reject':
            ctx.count('c08.rejections_checked')
            if info.kind in ('indirect', 'relativity'):
                ctx.count('c08.indirect_rejections')
            out['reason'] = str(info)
            if r.rc != 65 or ident != 'VALIDATION_ERROR':
                bad('program with a symbol error (%s) is not rejected with VALIDATION_ERROR/65: got %r/%r'
                    % (info, ident[:60], r.rc), model_reason=str(info),
                    probe_records=[(x['id'], x['argv']) for x in records])
            # whatever the verdict: nothing may have been executed
            ctx.count('c08.no_effect_checked')
            effects = [e for e in r.audit if e[0] in _EFFECT_EVENTS]
            if records or trees or r.calls or r.new_tmp_entries or effects:
                bad('program with a symbol error (%s) had effects before/without being rejected: %d probe record(s), '
                    '%d process(es), tmp entries %r, %d file-system event(s)'
                    % (info, len(records), len(r.calls), r.new_tmp_entries, len(effects)),
                    model_reason=str(info), probe_records=[(x['id'], x['argv']) for x in records],
                    audit=effects[:10])
            return out
        # ---- accepted by the reference
        sds = [e[1] for e in r.audit if e[0] == 'tempfile.mkdtemp' and
               os.path.basename(str(e[1])).startswith('exactly-')]
        if r.rc != 0 or ident != 'PASS':
            # describe where it stopped: the statement named by the error message, and whether everything before
            # it was as the reference says
            det = {'probe_records': [(x['id'], x['argv']) for x in records]}
            m = _LINE_RE.search(r.err)
            if m and 0 < int(m.group(1)) <= len(line_map) and line_map[int(m.group(1)) - 1] is not None:
                si = line_map[int(m.group(1)) - 1]
                det['stopped_at_statement'] = si
                det['stopped_at_kind'] = prog['stmts'][si]['k']
                det['stopped_at_regex_roots'] = info['regex_roots'].get(si, [])
            if len(sds) == 1 and 'stopped_at_statement' in det:
                v2, info2 = M.analyse(prog, _roots(d, sds[0]))
                if v2 == 'accept':
                    # what the reference expects up to the statement that stopped, followed by (a prefix of) the
                    # [cleanup] phase, which is executed after a failure in an earlier phase
                    order = M.execution_order(prog)
                    pos = {si2: n for n, si2 in enumerate(order)}
                    stop = det['stopped_at_statement']
                    recs = [((i, a, None if s is None else s.encode('utf-8')), st_i)
                            for (i, a, s), st_i in zip(info2['trace'], info2['trace_stmt'])]
                    before = [rc_ for rc_, st_i in recs if pos[st_i] < pos[stop]]
                    cleanup = [rc_ for rc_, st_i in recs if prog['stmts'][st_i]['ph'] == 'cleanup'] \
                        if prog['stmts'][stop]['ph'] != 'cleanup' else []
                    obs = [(x['id'], x['argv'], x['stdin']) for x in records]
                    rest = obs[len(before):]
                    det['trace_prefix_ok'] = (obs[:len(before)] == before and rest == cleanup[:len(rest)])
            bad('valid program is not executed to PASS: got %r/%r' % (ident[:60], r.rc), **det)
            return out
        if len(sds) != 1:
            out['status'] = 'inconclusive'
            out['why'] = 'sandbox root not identified from the audit trail: %r' % (sds,)
            return out
        roots = _roots(d, sds[0])
        v2, info2 = M.analyse(prog, roots)
        if v2 != 'accept' or info2['neg'] != info['neg']:
            out['status'] = 'unspec'  # value depends on the random sandbox name; not judged
            return out
        exp = [(i, a, None if s is None else s.encode('utf-8')) for i, a, s in info2['trace']]
        obs = [(x['id'], x['argv'], x['stdin']) for x in records]
        ctx.count('c08.accepted_traces_compared')
        ctx.count('c08.argv_records_compared', len(exp))
        ctx.count('c08.file_contents_compared', sum(1 for e in exp if e[2] is not None))
        out['expected_trace'] = exp
        if obs != exp:
            k = 0
            while k < min(len(obs), len(exp)) and obs[k] == exp[k]:
                k += 1
            e = exp[k] if k < len(exp) else None
            o = obs[k] if k < len(obs) else None
            if e is not None and o is not None and e[0] == o[0]:
                which = 'argv' if e[1] != o[1] else 'stdin/file contents'
                msg = 'value differs from the reference at probe %r (%s): expected %r, observed %r' % (
                    e[0], which, e[1] if which == 'argv' else e[2], o[1] if which == 'argv' else o[2])
            else:
                msg = 'probe trace differs from the reference at position %d: expected %r, observed %r' % (k, e, o)
            bad(msg, expected_trace=exp, observed_trace=obs, position=k)
        if info2['trees'] or trees:
            ctx.count('c08.directory_trees_compared', len(info2['trees']))
            exp_t = [[i, [list(e) for e in ents]] for i, ents in info2['trees']]
            if trees != exp_t:
                bad('directory made from a files-source differs from the reference: expected %r, observed %r'
                    % (exp_t, trees), expected_trees=exp_t, observed_trees=trees)
        if len(records) == len(info2['cwds']):
            for x, cwd in zip(records, info2['cwds']):
                if x['cwd'] != cwd:
                    bad('probe %r ran in %r, the reference says the current directory is %r' % (x['id'], x['cwd'], cwd))
                    break
        if r.new_tmp_entries:
            bad('sandbox left behind: %r' % r.new_tmp_entries)
        return out
    finally:
        out['shown'] = shown
        out['observed'] = {'rc': r.rc, 'stdout': r.out[:60], 'records': [(x['id'], x['argv'], x['stdin'])
                                                                          for x in records][:12]}
        ses.clean_tmp()
        ses.drop(d)


def _is_sample_case(case, key, o):
    """a handful of fixed cases (and the first long accepted seeded programs) are written out in the evidence"""
    part = case['part']
    if part == 'matrix':
        return (case['d'], case['c'], case['pl']) in (('list', 'def-string', 'before'),
                                                      ('text-matcher', 'line-matcher', 'later-phase'))
    if part == 'chain':
        return (case['d'], tuple(case['links'])) in (('path', ('s:naked', 'p:suffix')), ('list', ('s:heredoc', 'l:elem'))) \
            and key[-1] in ('-', 'accepted-uses')
    if part == 'dup':
        return case.get('name') == 'EXACTLY_TMP' and case.get('d') == 'string'
    if part == 'rand':
        return case['i'] < 64 and o['verdict'] == 'accept' and len(o.get('expected_trace') or ()) >= 5
    return False


# ---------------------------------------------------------------------------------------------
# fan: a definition with SEVERAL references of which a later one leads (directly or through further definitions)
# to a symbol of a type the context does not admit: the transitive check must follow every reference, not only the
# first one of each definition
# ---------------------------------------------------------------------------------------------
FAN_BAD = {'list': 'def list BAD = p q', 'path': 'def path BAD = -rel-act y'}
FAN_CONTEXTS = {
    # contexts that require strings all the way down (the manual: FILE-NAME / INTEGER / names are STRINGs built from
    # string symbols only); {C} is the reference
    'path-component': 'def path Q = -rel-act {C}',
    'dir-name': 'dir -rel-act {C}',
    'env-name': 'env unset {C}',
    'integer': 'timeout = {C}',
}


def _fan_cases():
    for bad in FAN_BAD:
        for ctxname in FAN_CONTEXTS:
            if ctxname == 'integer':
                continue  # a list/path inside an INTEGER string: covered by the all-good control only (see below)
            for depth in (1, 2, 3):
                for pos in (0, 1, 2):
                    for phase in ('setup', 'cleanup'):
                        yield {'part': 'fan', 'bad': bad, 'ctx': ctxname, 'depth': depth, 'pos': pos, 'phase': phase}
    for ctxname in FAN_CONTEXTS:
        for depth in (1, 2, 3):
            yield {'part': 'fan', 'bad': None, 'ctx': ctxname, 'depth': depth, 'pos': 1, 'phase': 'setup'}


def run_fan(case, ctx):
    import os
    from vf import probe
    ses = ctx.get_session()
    d = ses.new_case_dir({})
    marker = os.path.join(d, 'marker.txt')
    good_value = '7' if case['ctx'] == 'integer' else 'x'
    L = ['[setup]', '$ echo ran >> ' + marker, 'def string A = %s' % good_value, 'def string A2 = %s' % good_value]
    if case['bad']:
        L.append(FAN_BAD[case['bad']])
        leaf = 'BAD'
    else:
        L.append('def string GOOD = %s' % good_value)
        leaf = 'GOOD'
    # chain of depth-1 intermediate string definitions down to the leaf
    prev = leaf
    for k in range(case['depth'] - 1):
        L.append('def string B%d = @[%s]@' % (k, prev))
        prev = 'B%d' % k
    refs = ['@[A]@', '@[A2]@']
    refs.insert(case['pos'], '@[%s]@' % prev)
    L.append('def string C = ' + ''.join(refs))
    use = FAN_CONTEXTS[case['ctx']].replace('{C}', '@[C]@')
    if case['phase'] == 'setup':
        L.append(use)
        L += ['[act]', '$ true']
    else:
        L += ['[act]', '$ true', '[cleanup]', use]
    text = '\n'.join(L) + '\n'
    with open(os.path.join(d, 't.case'), 'w') as f:
        f.write(text)
    r = ses.run([os.path.join(d, 't.case')], cwd=d, mode='normal')
    viol, inconc = [], []
    if r.timed_out:
        inconc.append('watchdog')
    elif r.exc is not None:
        viol.append({'what': 'C08 fan: exception escaped', 'detail': {'case_text': text, 'exc': r.exc[-300:]}})
    else:
        ident = r.out.strip()
        ctx.count('c08.fan_programs_judged')
        if case['bad']:
            ran = os.path.exists(marker) or r.new_tmp_entries or r.calls
            if not (r.rc == 65 and ident == 'VALIDATION_ERROR'):
                viol.append({'what': 'C08 fan: `%s` where C = %s and %s leads (depth %d) to a %s symbol is not rejected '
                                     'with VALIDATION_ERROR/65: got %s/%r' % (use, ''.join(refs), refs[case['pos']],
                                                                             case['depth'], case['bad'], ident, r.rc),
                             'detail': {'case_text': text, 'stderr': r.err[:500]}})
            elif ran:
                viol.append({'what': 'C08 fan: rejected program was (partly) executed', 'detail': {'case_text': text}})
        else:
            if not (r.rc == 0 and ident == 'PASS'):
                viol.append({'what': 'C08 fan control (all strings) `%s` does not PASS: %s/%r' % (use, ident, r.rc),
                             'detail': {'case_text': text, 'stderr': r.err[:500]}})
    ses.clean_tmp()
    ses.drop(d)
    res = {'classes': [('fan', str(case['bad']), case['ctx'], case['depth'], case['pos'], case['phase'])],
           'viol': viol, 'inconclusive': inconc}
    if case['bad'] == 'list' and case['depth'] == 2 and case['pos'] == 2 and case['ctx'] == 'path-component' \
            and case['phase'] == 'setup':
        res['sample'] = {'case_text': text, 'expected': 'VALIDATION_ERROR, nothing executed', 'observed': r.out.strip()}
    return res


def run_case(case, ctx):
    if case['part'] == 'fan':
        return run_fan(case, ctx)
    progs = BUILDERS[case['part']](case)
    res = {'classes': [], 'viol': [], 'inconclusive': [], 'evaluations': 0}
    for key, prog in progs:
        o = execute_program(prog, ctx)
        if o['status'] == 'unspec':
            ctx.count('c08.skipped_unspecified')
            continue
        if o['status'] == 'inconclusive':
            res['inconclusive'].append(o.get('why', 'watchdog'))
            continue
        res['evaluations'] += 1
        feats = _features(prog, o['verdict'], o['info'])
        res['classes'].append(tuple(key) + feats)
        for v in o['viol']:
            v['detail']['class'] = list(key) + list(feats)
            res['viol'].append(v)
        want_sample = _is_sample_case(case, key, o)
        if want_sample and 'sample' not in res:
            res['sample'] = {'case': case, 'case_text': o['shown'], 'model_verdict': o['verdict'],
                             'model_reason': o.get('reason'), 'expected_trace': o.get('expected_trace'),
                             'observed': o['observed']}
    if not progs:
        ctx.count('c08.empty_descriptors')
    return res
