"""C04 Sandbox lifecycle and isolation of the Exactly process.
(a) D2: the C01 fault plans with snapshot-taking stubs, x is_keep_sandbox;
(b) D1: text cases that cd / change env / chmod / build trees and end in every way, with and without --keep."""
import os

from vf import common, probe

ID = 'C04'
LEVEL = 'fault_enumeration'
RULE = ('(a) stub executions (every failing step x kind x position, n<=2, x keep in {no,yes}) observed by a state '
        'snapshot at every step event; (b) real CLI runs of generated text cases with disturbing instructions (cd, env, '
        'chmod, trees, symlinks) x ending x --keep; class key = (driver, failing step or ending, kind, keep, '
        'disturbance set); non-trivial = at least one snapshot comparison was made')
ASSUMPTIONS = ['runs as root: read-only directories cannot obstruct rmtree, so that clause cannot discriminate here',
               'result file names (exit-code, stdout, stderr) and layout (act, tmp, result, internal) are hard-coded '
               'from `help concept sandbox`',
               'if executor.execute itself raised, the sandbox would be unknown to execute(); no scenario demands '
               'otherwise']
EXHAUSTIVE_NOTE = 'D2 part: all single faults for n in {1,2} x keep x 2 statuses'
MIN_OBS = {'quick': {'evaluations': 3500, 'c04.snapshots': 40000, 'c04.after_return_checks': 3500,
                     'c04.result_dir_checks': 800, 'c04.d1_runs': 1500},
           'thorough': {'evaluations': 50000, 'c04.snapshots': 500000, 'c04.after_return_checks': 50000,
                        'c04.result_dir_checks': 10000, 'c04.d1_runs': 25000}}

LAYOUT = ['act', 'internal', 'result', 'tmp']
RESULT_FILES = ['exit-code', 'stderr', 'stdout']

D1_ENDINGS = ['pass', 'fail', 'hard_setup', 'hard_before_assert', 'hard_assert', 'hard_cleanup', 'hard_act',
              'hard_act_exec',
              'validation', 'syntax', 'skip']
DISTURB = ['cd_root', 'cd_tmp', 'cd_newdir', 'env_set', 'env_set_act', 'env_unset', 'env_path', 'chmod_files',
           'chmod_tree', 'deep_tree', 'symlinks', 'tmp_files', 'cd_deleted']
OUT_KINDS = ['empty', 'text', 'nonl', 'nonascii', 'large']
# transformation of the action's output: name -> (syntax, function on bytes)
ACT_TRS = [None, 'upper', 'trailer', 'trailer-sym', 'count']


def cases(tier, seed):
    from vf.props import c01
    from vf import stubs_kinds as K
    for n in (1, 2):
        counts = {'conf': n, 'setup': n, 'before-assert': n, 'assert': n, 'cleanup': n}
        for keep in (False, True):
            for status in ('PASS', 'FAIL'):
                yield {'d': 2, 'counts': counts, 'plan': [], 'status': status, 'keep': keep, 'mode': 'normal'}
            yield {'d': 2, 'counts': counts, 'plan': [], 'status': 'SKIP', 'keep': keep, 'mode': 'normal'}
            yield {'d': 2, 'counts': counts, 'plan': [], 'status': 'PASS', 'keep': keep, 'mode': 'act'}
        for site in c01.sites(counts):
            for kind in K.kinds_for(site[0], site[1]):
                for keep in (False, True):
                    for status in ('PASS', 'FAIL'):
                        yield {'d': 2, 'counts': counts, 'plan': [[list(site), kind]], 'status': status, 'keep': keep,
                               'mode': 'normal'}
    rng = common.rng_for(seed, ID)
    # D2 double faults (step + cleanup), seeded
    n2 = 5000 if tier == 'quick' else 30000
    for _ in range(n2):
        n = rng.choice((1, 2, 3))
        counts = {'conf': 1, 'setup': n, 'before-assert': n, 'assert': n, 'cleanup': n}
        ss = [s for s in c01.sites(counts) if s[0] != 'cleanup' or s[1] != 'main']
        s = rng.choice(ss)
        plan = [[list(s), rng.choice(K.kinds_for(s[0], s[1]))],
                [['cleanup', 'main', rng.randrange(n)], rng.choice(K.kinds_for('cleanup', 'main'))]]
        yield {'d': 2, 'counts': counts, 'plan': plan, 'status': rng.choice(('PASS', 'FAIL')),
               'keep': rng.random() < 0.5, 'mode': rng.choice(('normal', 'normal', 'act'))}
    # D1 deterministic: every ending x keep with a fixed rich disturbance set
    for e in D1_ENDINGS:
        for keep in (False, True):
            for i, dist in enumerate(([x for x in DISTURB if x != 'cd_deleted'], [], ['cd_root', 'env_unset', 'chmod_tree'],
                                      ['cd_deleted'], ['cd_deleted', 'env_set'], ['env_unset', 'cd_deleted'])):
                yield {'d': 1, 'ending': e, 'keep': keep, 'disturb': list(dist), 'out': OUT_KINDS[(i + len(e)) % 5],
                       'rc': (7 * len(e) + i) % 256, 'where': ['setup', 'before-assert', 'cleanup'][i % 3]}
    for tname in sorted(_MINIMAL_TEXTS):
        for keep in (False, True):
            for pp in (False, True):
                for elsewhere in (False, True):
                    yield {'d': 3, 'text': tname, 'keep': keep, 'pp': pp, 'elsewhere': elsewhere}
    # the directory Exactly was started in is removed during the run
    for e in D1_ENDINGS:
        for keep in (False, True):
            yield {'d': 1, 'ending': e, 'keep': keep, 'disturb': [], 'out': 'text', 'rc': (3 * len(e)) % 256,
                   'where': 'setup', 'startdel': True}
            yield {'d': 1, 'ending': e, 'keep': keep, 'disturb': ['cd_tmp', 'env_set'], 'out': 'empty', 'rc': 0,
                   'where': 'cleanup', 'startdel': True}
    # the action given with a transformation of its output: result/stdout holds the transformed output, result/stderr
    # and result/exit-code those of the action (every kind of output, also none at all)
    for tr in ACT_TRS[1:]:
        for ok in OUT_KINDS:
            for i, e in enumerate(('pass', 'fail', 'hard_cleanup')):
                yield {'d': 1, 'ending': e, 'keep': (i + len(ok)) % 2 == 0, 'disturb': [], 'out': ok,
                       'rc': (11 * len(ok) + 3 * i) % 256, 'where': 'setup', 'tr': tr}
    n1 = 5000 if tier == 'quick' else 25000
    for _ in range(n1):
        k = rng.randrange(0, 6)
        yield {'d': 1, 'ending': rng.choice(D1_ENDINGS), 'keep': rng.random() < 0.5,
               'disturb': rng.sample(DISTURB, k), 'out': rng.choice(OUT_KINDS), 'rc': rng.randrange(256),
               'where': rng.choice(['setup', 'before-assert', 'assert', 'cleanup']),
               'tr': rng.choice(ACT_TRS) if rng.random() < 0.25 else None}


# ================================================================================================ D2
def _ls(d):
    try:
        return sorted(os.listdir(d))
    except OSError:
        return None


def run_d2(case, ctx):
    from vf import stubs, driver
    viol = []
    state = {'first_post': True, 'snaps': 0}
    plan = {tuple(s): k for s, k in case['plan']}
    act_out = ('stub-stdout å\nno newline at end', 'stub-stderr\n')
    act_rc = 37

    def bad(msg):
        if len(viol) < 5:
            viol.append(msg)

    def on_event(ev, env, rec):
        state['snaps'] += 1
        root = rec.sandbox_roots[-1] if rec.sandbox_roots else None
        post = ev['phase'] != 'conf' and ev['step'] in ('main', 'post_setup', 'exe_input', 'prepare', 'execute')
        if not post and root is not None:
            bad('a sandbox exists already at the validation step %s/%s/%d (sandbox must be created after validation)' %
                (ev['phase'], ev['step'], ev['index']))
        if post:
            if root is None:
                bad('post-sandbox step %s/%s without a sandbox' % (ev['phase'], ev['step']))
                return
            if ev['sds_root'] is not None and os.path.realpath(ev['sds_root']) != os.path.realpath(root):
                bad('instruction environment names sandbox %s, the resolver created %s' % (ev['sds_root'], root))
            if state['first_post']:
                state['first_post'] = False
                if _ls(root) != LAYOUT:
                    bad('layout of the new sandbox is %r, documented %r' % (_ls(root), LAYOUT))
                elif _ls(os.path.join(root, 'internal')) != ['log', 'tmp']:
                    bad('internal/ of the new sandbox is %r, documented [log, tmp]' % _ls(os.path.join(root, 'internal')))
                for sub in ('act', 'tmp', 'result'):
                    if _ls(os.path.join(root, sub)) != []:
                        bad('%s/ of the new sandbox is not empty: %r' % (sub, _ls(os.path.join(root, sub))))
                if ev['cwd'] is None or os.path.realpath(ev['cwd']) != os.path.realpath(os.path.join(root, 'act')):
                    bad('current directory at the first step after sandbox creation is %r, not act/' % ev['cwd'])
            # tmp/ is never touched by Exactly itself (the stubs do not use it)
            t = _ls(os.path.join(root, 'tmp'))
            if t != []:
                bad('tmp/ is not empty at %s/%s/%d although no instruction uses it: %r' %
                    (ev['phase'], ev['step'], ev['index'], t))
            if _ls(root) != LAYOUT:
                bad('sandbox top level is %r at %s/%s/%d' % (_ls(root), ev['phase'], ev['step'], ev['index']))
            # result/ after the act phase
            executed = any(e['phase'] == 'act' and e['step'] == 'execute' for e in rec.events[:-1])
            if executed and ('act', 'execute', 0) not in plan and case['mode'] == 'normal':
                ctx.count('c04.result_dir_checks')
                rd = os.path.join(root, 'result')
                if _ls(rd) != RESULT_FILES:
                    bad('result/ holds %r after the act phase, documented %r' % (_ls(rd), RESULT_FILES))
                else:
                    got = {}
                    for n in RESULT_FILES:
                        with open(os.path.join(rd, n), 'rb') as f:
                            got[n] = f.read()
                    if got['stdout'] != act_out[0].encode() or got['stderr'] != act_out[1].encode():
                        bad('result/stdout|stderr differ from the action\'s output: %r' % got)
                    if got['exit-code'].strip() != str(act_rc).encode():
                        bad('result/exitcode is %r, the action exited with %d' % (got['exit-code'], act_rc))
            elif not executed:
                rd = _ls(os.path.join(root, 'result'))
                if ev['step'] != 'execute' and rd != []:
                    bad('result/ not empty before the act phase: %r' % rd)

    rec = stubs.Recorder(plan, ctx.scratch, on_event=on_event, act_output=act_out, act_exit_code=act_rc)
    tc = stubs.build_test_case(rec, case['counts'], case['status'])
    cwd0 = os.getcwd()
    env0 = dict(os.environ)
    from vf import driver as drv
    del drv._AUDIT_EVENTS[:]
    drv._AUDIT_ON = True
    out_files = None
    f1 = f2 = None
    if case['mode'] == 'act':
        import tempfile
        from exactly_lib.util.file_utils.std import StdOutputFiles
        f1 = tempfile.TemporaryFile('w+', dir=ctx.scratch)
        f2 = tempfile.TemporaryFile('w+', dir=ctx.scratch)
        out_files = StdOutputFiles(f1, f2)
    try:
        res, exc = stubs.execute(rec, tc, is_keep_sandbox=case['keep'], act_only=case['mode'] == 'act',
                                 out_files=out_files)
    finally:
        drv._AUDIT_ON = False
        if f1:
            f1.close()
            f2.close()
    audit = list(drv._AUDIT_EVENTS)
    ctx.count('c04.snapshots', state['snaps'])
    ctx.count('c04.after_return_checks')
    if exc is not None:
        bad('exception escaped execute: %r' % (exc,))
    try:
        cwd1 = os.getcwd()
    except OSError:
        cwd1 = None
    if cwd1 != cwd0:
        bad('current directory of the calling process is %r after execute, was %r' % (cwd1, cwd0))
        os.chdir(cwd0)
    if dict(os.environ) != env0:
        bad('os.environ of the calling process changed')
        os.environ.clear()
        os.environ.update(env0)
    for a in audit:
        if a[0] in ('os.putenv', 'os.unsetenv'):
            bad('process environment modified: %r' % (a,))
            break
    if len(rec.sandbox_roots) > 1:
        bad('more than one sandbox created')
    for root in rec.sandbox_roots:
        if case['keep']:
            if not os.path.isdir(root):
                bad('keep: sandbox was removed')
            else:
                if _ls(root) != LAYOUT:
                    bad('keep: sandbox layout after return is %r' % _ls(root))
                if res is not None and (res.sds is None or
                                        os.path.realpath(str(res.sds.root_dir)) != os.path.realpath(root)):
                    bad('keep: result does not report the sandbox path')
        else:
            if os.path.lexists(root):
                bad('sandbox %s still exists after execute (ending: %s)' %
                    (os.path.basename(root), 'pass' if not case['plan'] else case['plan'][0]))
        drv.force_rmtree(root)
    leftovers = [n for n in os.listdir(ctx.scratch) if n.startswith('sds-')]
    if leftovers:
        bad('leftover sandboxes %r' % leftovers)
        for n in leftovers:
            drv.force_rmtree(os.path.join(ctx.scratch, n))
    if case['plan']:
        s, k = case['plan'][0]
        key = ('D2', s[0], s[1], k, 'keep' if case['keep'] else 'nokeep', case['status'], len(case['plan']))
    else:
        key = ('D2', 'no-fault', case['status'], case['mode'], 'keep' if case['keep'] else 'nokeep')
    return {'classes': [key] if state['snaps'] else [],
            'viol': [{'what': 'C04 ' + m, 'detail': {'events': [(e['phase'], e['step'], e['index']) for e in rec.events],
                                                     'result': stubs.result_summary(res)}} for m in viol]}


# ================================================================================================ D1
def build_d1(case, marker_dir):
    d = case['disturb']
    L = {'setup': [], 'before-assert': [], 'assert': [], 'cleanup': []}
    w = case['where']
    uses_tmp = set()
    expect_act = set()

    def add(line):
        L[w].append(line)

    if 'deep_tree' in d:
        add('dir -rel-act a/b/c/d')
        add('file -rel-act a/b/c/d/f.txt = "deep"')
        expect_act.add('a')
    if 'symlinks' in d:
        add('$ ln -s /nonexistent-target "$(dirname "$PWD")/act/dangling" && ln -s . "$(dirname "$PWD")/act/loop"')
    if 'tmp_files' in d:
        add('file -rel-tmp mine.txt = "mine"')
        uses_tmp.add('mine.txt')
    if 'chmod_files' in d:
        add('file -rel-act ro.txt = "ro"')
        add('$ chmod a-w @[EXACTLY_ACT]@/ro.txt')
    if 'env_set' in d:
        add('env VF_C04_A = changed')
    if 'env_set_act' in d:
        add('env -of act VF_C04_B = changed')
    if 'env_unset' in d:
        add('env unset HOME')
    if 'env_path' in d:
        add('env PATH = /nonexistent-path-entry:${PATH}')
    if 'cd_tmp' in d:
        add('dir -rel-tmp cdsub')
        add('cd -rel-tmp cdsub')
        uses_tmp.add('cdsub')
    if 'cd_newdir' in d:
        add('dir -rel-act newdir/x')
        add('cd -rel-act newdir/x')
    if 'cd_root' in d:
        add('cd /')
    if 'cd_deleted' in d:
        # the current directory is removed while it is current; always as the last thing the case does (a process
        # cannot be started in a removed directory, so anything following it would legitimately be a hard error)
        L['cleanup'].append('dir -rel-act gone/deeper')
        L['cleanup'].append('cd -rel-act gone/deeper')
        L['cleanup'].append('$ rmdir "$PWD"')
    if case.get('startdel'):
        # the directory Exactly was STARTED in is removed by the case (the last thing it does): the current directory
        # cannot be put back, everything else the statement promises still can
        L['cleanup'].append('$ rmdir ' + os.path.join(marker_dir, 'startdir'))
    if 'chmod_tree' in d and 'cd_deleted' not in d:
        add('$ chmod -R a-w @[EXACTLY_ACT]@ @[EXACTLY_TMP]@')
    e = case['ending']
    rc = case['rc']
    ok = case['out']
    if ok == 'large':
        act = '$ head -c 70000 /dev/zero | tr "\\0" x; echo E >&2; exit %d' % rc
        exp_out = b'x' * 70000
        exp_err = b'E\n'
    else:
        out = {'empty': '', 'text': 'line1\nline2\n', 'nonl': 'no final newline', 'nonascii': 'räksmörgås €\n'}[ok]
        err = 'err\n' if ok != 'empty' else ''
        act = '%s - %s' % (probe.PROBE, probe.ctrl(rc=rc, out=out, err=err))
        exp_out, exp_err = out.encode(), err.encode()
    tr = case.get('tr')
    if tr is not None and 'env_path' not in d and 'cd_deleted' not in d:
        if tr == 'upper':
            act += '\n  -transformed-by char-case -to-upper'
            exp_out = exp_out.decode().upper().encode()
        elif tr == 'trailer':
            act += "\n  -transformed-by run % sh -c 'cat; echo TRAILER'"
            exp_out = exp_out + b'TRAILER\n'
        elif tr == 'trailer-sym':
            L['setup'].insert(0, 'def program THE_ACTION = ' + act + "\n  -transformed-by run % sh -c 'cat; echo TRAILER'")
            act = '@ THE_ACTION'
            exp_out = exp_out + b'TRAILER\n'
        elif tr == 'count':
            act += "\n  -transformed-by run % sh -c 'wc -c | tr -d \" \"'"
            exp_out = ('%d\n' % len(exp_out)).encode()
    conf = []
    good = 'exit-code == %d' % rc
    bad = 'exit-code == %d' % ((rc + 1) % 256)
    asserts = [good]
    if e == 'fail':
        asserts = [good, bad]
    elif e == 'hard_setup':
        L['setup'].append('$ exit 1')
    elif e == 'hard_before_assert':
        L['before-assert'].append('$ exit 1')
    elif e == 'hard_assert':
        asserts.append('contents this-file-does-not-exist : is-empty')
    elif e == 'hard_cleanup':
        L['cleanup'].insert(0, '$ exit 1')
    elif e == 'hard_act':
        L['setup'].append('file -rel-act not-exe.txt = "x"')
        act = '-rel-act not-exe.txt'
    elif e == 'hard_act_exec':
        # the action passes every validation but the OS cannot start it
        act = '% no-such-program-c04 an-argument'
    elif e == 'validation':
        L['cleanup'].insert(0, 'file x = @[UNDEFINED_SYM]@')
    elif e == 'syntax':
        L['cleanup'].insert(0, 'no-such-instruction')
    elif e == 'skip':
        conf = ['status = SKIP']
    lines = []
    if conf:
        lines += ['[conf]'] + conf
    lines += ['[setup]'] + L['setup'] + ['[act]', act, '[before-assert]'] + L['before-assert'] + ['[assert]'] + \
        L['assert'] + asserts + ['[cleanup]'] + L['cleanup']
    text = '\n'.join(lines) + '\n'
    sandbox = e not in ('validation', 'syntax', 'skip')
    act_ran = sandbox and e not in ('hard_setup', 'hard_act', 'hard_act_exec')
    # which disturbances were actually executed?
    order = ['setup', 'before-assert', 'assert', 'cleanup']
    reached = {'pass': 4, 'fail': 4, 'hard_cleanup': 4, 'hard_assert': 3 if w == 'assert' else 4,
               'hard_before_assert': 1, 'hard_setup': 0, 'hard_act': 1, 'hard_act_exec': 1}.get(e, 0)
    return text, {'sandbox': sandbox, 'act_ran': act_ran, 'exp_out': exp_out, 'exp_err': exp_err,
                  'uses_tmp': uses_tmp}


def run_d1(case, ctx):
    ses = ctx.get_session()
    d = ses.new_case_dir()
    text, exp = build_d1(case, d)
    from vf import driver
    driver.write_files(d, {'t.case': text})
    argv = (['--keep'] if case['keep'] else []) + [os.path.join(d, 't.case')]
    os.environ['VF_C04_A'] = 'orig-a'
    os.environ['VF_C04_B'] = 'orig-b'
    start = d
    if case.get('startdel'):
        start = os.path.join(d, 'startdir')
        os.makedirs(start, exist_ok=True)
        ctx.count('c04.start_dir_removed_runs')
    r = ses.run(argv, cwd=start, mode='keep' if case['keep'] else 'normal')
    ctx.count('c04.d1_runs')
    viol = []
    inconc = []

    def bad(msg):
        viol.append(msg)

    if r.timed_out:
        inconc.append('watchdog')
    elif r.exc is not None:
        bad('exception escaped: %s' % r.exc[-300:])
    else:
        ctx.count('c04.after_return_checks')
        if r.cwd_after != r.cwd_before and not (case.get('startdel') and not os.path.isdir(start)):
            bad('current directory of the Exactly process is %r after the run, was %r' % (r.cwd_after, r.cwd_before))
        if r.env_after != r.env_before:
            diff = {k: (r.env_before.get(k), r.env_after.get(k)) for k in set(r.env_before) | set(r.env_after)
                    if r.env_before.get(k) != r.env_after.get(k)}
            bad('environment of the Exactly process changed: %r' % diff)
        for a in r.audit:
            if a[0] in ('os.putenv', 'os.unsetenv'):
                bad('process environment modified during the run: %r' % (a,))
                break
        sandboxes = [n for n in r.new_tmp_entries if n.startswith('exactly-')]
        others = [n for n in r.new_tmp_entries if not n.startswith('exactly-')]
        mk = [a for a in r.audit if a[0] == 'tempfile.mkdtemp']
        if exp['sandbox'] and len(mk) < 1:
            bad('execution got past validation but no sandbox directory was created (no mkdtemp event)')
        if not exp['sandbox'] and (mk or sandboxes):
            bad('a sandbox was created although execution stops before it (%s)' % case['ending'])
        if others:
            bad('temporary entries outside a sandbox left behind: %r' % others)
        if not case['keep']:
            if sandboxes:
                bad('sandbox left behind without --keep: %r (ending %s)' % (sandboxes, case['ending']))
        elif exp['sandbox']:
            if len(sandboxes) != 1:
                bad('--keep: expected exactly one kept sandbox, found %r' % sandboxes)
            else:
                root = os.path.join(ses.tmpdir, sandboxes[0])
                if r.out.rstrip('\n') != root and os.path.realpath(r.out.rstrip('\n')) != os.path.realpath(root):
                    bad('--keep: stdout %r does not report the sandbox %r' % (r.out[:200], root))
                if _ls(root) != LAYOUT:
                    bad('--keep: sandbox layout %r' % _ls(root))
                else:
                    t = set(_ls(os.path.join(root, 'tmp')))
                    # only what the case itself put there may be in tmp/
                    if not t <= exp['uses_tmp']:
                        bad('tmp/ contains %r, the case itself created at most %r' % (sorted(t), sorted(exp['uses_tmp'])))
                    if exp['act_ran']:
                        ctx.count('c04.result_dir_checks')
                        rd = os.path.join(root, 'result')
                        if _ls(rd) != RESULT_FILES:
                            bad('result/ holds %r, documented %r' % (_ls(rd), RESULT_FILES))
                        else:
                            def rb(n):
                                with open(os.path.join(rd, n), 'rb') as f:
                                    return f.read()
                            if rb('stdout') != exp['exp_out']:
                                bad('result/stdout (%d bytes) is not the action\'s stdout (%d bytes)' %
                                    (len(rb('stdout')), len(exp['exp_out'])))
                            if rb('stderr') != exp['exp_err']:
                                bad('result/stderr %r is not the action\'s stderr %r' % (rb('stderr')[:80], exp['exp_err']))
                            if rb('exit-code').strip() != str(case['rc']).encode():
                                bad('result/exitcode %r, the action exited with %d' % (rb('exit-code'), case['rc']))
                    else:
                        if case['ending'] == 'hard_setup' and _ls(os.path.join(root, 'result')) != []:
                            bad('result/ not empty although the act phase never ran: %r' % _ls(os.path.join(root, 'result')))
                        if case['ending'] in ('hard_act', 'hard_act_exec'):
                            # the action could not be started: there is no exit code.  Whatever result/ holds then,
                            # a file named exit-code holds an exit code
                            ctx.count('c04.result_dir_checks')
                            ecp = os.path.join(root, 'result', 'exit-code')
                            if os.path.exists(ecp):
                                with open(ecp, 'rb') as f:
                                    ecb = f.read()
                                if not ecb.strip().isdigit():
                                    bad('result/exit-code holds %r although the action was never executed (no exit '
                                        'code exists)' % ecb[:40])
                            extra = [n for n in _ls(os.path.join(root, 'result')) if n not in RESULT_FILES]
                            if extra:
                                bad('result/ holds %r besides the documented %r' % (extra, RESULT_FILES))
    # the same case executed as a member of a suite (`exactly suite`): every execution uses its own sandbox, which is
    # removed when the case ends, and the process is left as it was
    if not case['keep'] and not r.timed_out and 'cd_deleted' not in case['disturb'] and not case.get('startdel') and \
            (len(text) + case['rc']) % 3 == 0:
        ses.clean_tmp()
        driver.write_files(d, {'two.case': '[act]\n$ true\n', 's.suite': '[cases]\nt.case\ntwo.case\n'})
        rs = ses.run(['suite', os.path.join(d, 's.suite')], cwd=d, mode=None)
        ctx.count('c04.suite_run_checks')
        if rs.timed_out:
            inconc.append('watchdog (suite run)')
        elif rs.exc is not None:
            bad('suite run: exception escaped: %s' % rs.exc[-300:])
        else:
            if rs.new_tmp_entries:
                bad('suite run: entries left in the temporary directory after `exactly suite` (the sandboxes of its '
                    'cases must be removed): %r' % (rs.new_tmp_entries,))
            if rs.cwd_after != rs.cwd_before:
                bad('suite run: current directory of the Exactly process is %r after the run, was %r'
                    % (rs.cwd_after, rs.cwd_before))
            if rs.env_after != rs.env_before:
                bad('suite run: environment of the Exactly process changed')
            n_mk = len([a for a in rs.audit if a[0] == 'tempfile.mkdtemp'
                        and os.path.basename(str(a[1])).startswith('exactly-')])
            if exp['sandbox'] and n_mk < 2:
                bad('suite run: %d sandboxes were created for two executed cases (each execution uses a freshly '
                    'created sandbox)' % n_mk)
    os.environ.pop('VF_C04_A', None)
    os.environ.pop('VF_C04_B', None)
    ses.clean_tmp()
    ses.drop(d)
    key = ('D1', case['ending'], 'keep' if case['keep'] else 'nokeep', case['where'], case['out'],
           ','.join(sorted(case['disturb']))[:60])
    res = {'classes': [key] if not r.timed_out else [], 'inconclusive': inconc,
           'viol': [{'what': 'C04 ' + m, 'detail': {'case_text': text, 'observed': r.brief()}} for m in viol]}
    if case['ending'] == 'hard_cleanup' and case['keep'] and len(case['disturb']) > 5:
        res['sample'] = {'case': case, 'case_text': text, 'rc': r.rc, 'stdout': r.out[:100],
                         'new_tmp_entries': r.new_tmp_entries}
    return res


_MINIMAL_TEXTS = {'empty-file': '', 'headers-only': '[setup]\n[act]\n[before-assert]\n[assert]\n[cleanup]\n',
                  'conf-only': '[conf]\nstatus = PASS\n', 'comment-only': '# nothing here\n', 'blank-lines': '\n\n',
                  'act-header-only': '[act]\n', 'one-assert': '[assert]\nexit-code == 0\n',
                  'one-cleanup': '[cleanup]\nfile -rel-tmp x.txt\n'}


def run_d3(case, ctx):
    """Minimal test cases (nothing to execute in some or all phases), optionally through a preprocessor, started from a
    directory other than the one of the case file: every execution that gets past validation uses a sandbox with the
    documented layout - also when there is nothing to do in it -, --keep reports it, and the process is left as it was."""
    ses = ctx.get_session()
    d = ses.new_case_dir({'t.case': _MINIMAL_TEXTS[case['text']]})
    start = os.path.join(ctx.scratch, 'c04-elsewhere') if case['elsewhere'] else d
    os.makedirs(start, exist_ok=True)
    argv = (['--keep'] if case['keep'] else []) + (['--preprocessor', 'cat'] if case['pp'] else []) + \
        [os.path.join(d, 't.case')]
    r = ses.run(argv, cwd=start, mode='keep' if case['keep'] else 'normal')
    ctx.count('c04.d1_runs')
    ctx.count('c04.minimal_case_runs')
    viol, inconc = [], []
    if r.timed_out:
        inconc.append('watchdog')
    elif r.exc is not None:
        viol.append('exception escaped: %s' % r.exc[-300:])
    else:
        ctx.count('c04.after_return_checks')
        if r.cwd_after != r.cwd_before:
            viol.append('current directory of the Exactly process is %r after the run, was %r' % (r.cwd_after, r.cwd_before))
        if r.env_after != r.env_before:
            viol.append('environment of the Exactly process changed')
        sandboxes = [n for n in r.new_tmp_entries if n.startswith('exactly-')]
        mk = [a for a in r.audit if a[0] == 'tempfile.mkdtemp']
        ident = (r.err if case['keep'] else r.out).strip().split('\n')[0] if (r.err if case['keep'] else r.out).strip() else ''
        if r.rc != 0:
            viol.append('a minimal valid case must PASS, got exit code %r (%s)' % (r.rc, (r.out + r.err)[:200]))
        else:
            if len(mk) < 1:
                viol.append('the case PASSes but no sandbox directory was created (no mkdtemp event): every execution '
                            'that gets past validation uses a sandbox')
            if not case['keep']:
                if sandboxes:
                    viol.append('sandbox left behind without --keep: %r' % sandboxes)
            elif len(sandboxes) != 1:
                viol.append('--keep: expected exactly one kept sandbox, found %r (stdout %r)' % (sandboxes, r.out[:120]))
            else:
                root = os.path.join(ses.tmpdir, sandboxes[0])
                if os.path.realpath(r.out.rstrip('\n')) != os.path.realpath(root):
                    viol.append('--keep: stdout %r does not report the sandbox %r' % (r.out[:200], root))
                if _ls(root) != LAYOUT:
                    viol.append('--keep: sandbox layout %r' % _ls(root))
                elif _ls(os.path.join(root, 'result')) != RESULT_FILES:
                    viol.append('result/ holds %r after the (empty) act phase, documented %r'
                                % (_ls(os.path.join(root, 'result')), RESULT_FILES))
    ses.clean_tmp()
    ses.drop(d)
    return {'classes': [('minimal', case['text'], case['keep'], case['pp'], case['elsewhere'])],
            'viol': [{'what': 'C04 minimal case %s%s%s: %s' % (case['text'], ' --keep' if case['keep'] else '',
                                                             ' --preprocessor' if case['pp'] else '', m),
                      'detail': {'case_text': _MINIMAL_TEXTS[case['text']], 'argv': argv[:-1], 'observed': r.brief()}}
                     for m in viol], 'inconclusive': inconc}


def run_case(case, ctx):
    if case['d'] == 2:
        return run_d2(case, ctx)
    if case['d'] == 3:
        return run_d3(case, ctx)
    return run_d1(case, ctx)


# ---------------------------------------------------------------------------------------------------------------
# known findings (keyed by mechanism; see /verif/known_findings.json)
# ---------------------------------------------------------------------------------------------------------------
def _known_keep_start_dir_removed(v):
    """--keep + the directory Exactly was started in removed by the case: putting the current directory back fails after
    the execution proper has ended; the run ends as INTERNAL_ERROR naming that directory, the sandbox is kept but its
    path is not reported."""
    d = v.get('detail') or {}
    o = d.get('observed') or {}
    return ("--keep: stdout '' does not report the sandbox" in v.get('what', '')
            and o.get('rc') == 129 and o.get('out') == ''
            and 'No such file or directory' in (o.get('err') or '') and "startdir'" in (o.get('err') or '')
            and 'rmdir ' in (d.get('case_text') or '') and '--keep' in (o.get('argv') or []))


KNOWN = {'keep-start-dir-removed-sandbox-path-not-reported': _known_keep_start_dir_removed}
