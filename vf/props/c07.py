"""C07 Test-case file structure: phases, merging, inclusion, source locations.
Generated documents (known structure by construction) are (a) parsed through the real parser API (D3) and compared
element by element with the structure they were generated from, (b) run through the CLI in every permutation of
their phase blocks with an execution log as effect trace, (c) given a planted defect whose error report must name
file, line, text and including chain; inclusion cycles / unknown phases must be reported.  M6 (ParseSource
invariant) is active in all of it."""
import itertools
import os
import re

from vf import common

ID = 'C07'
LEVEL = 'exploration'
RULE = ('cases: "parse" = a generated document set parsed by test_case_parser.new_parser(...).apply and compared with '
        'its generating structure (per phase: instruction elements with first line number, source lines, file, '
        'including chain, description); "perm" = the same kind of document executed by the CLI in every permutation of '
        'its phase blocks, execution log and outcome compared with the reference order; "defect" = a planted unknown '
        'instruction / unknown phase / cycle / missing include whose report is checked. class key = (kind, multiset of '
        'line kinds, inclusion depth/shape, number of blocks). non-trivial = the parser returned and >=1 element or '
        'report was compared')
ASSUMPTIONS = ['only complete instructions are used as elements (an instruction lacking a mandatory argument may '
               'continue onto following lines; outside the quantifier)',
               'act blocks contain source lines and escaped lines only (no comment / blank look-alikes), one act line '
               'in executed documents (command-line actor)',
               'permutations keep the relative order of blocks of the same phase; a leading header-less block gets an '
               'explicit [act] header before it is moved',
               'malformed header lines are generated only in the act phase of parse-only documents, where the manual '
               'leaves them as source text; unknown headers are expected to be syntax errors']
EXHAUSTIVE_NOTE = 'all documents of <=3 lines over a reduced alphabet of 9 line kinds; all permutations of <=4 blocks'
MIN_OBS = {'quick': {'evaluations': 4000, 'c07.elements_compared': 8000, 'c07.permutation_runs': 1200,
                     'c07.defect_reports_checked': 500, 'm6.invariant_evaluations': 100000},
           'thorough': {'evaluations': 40000, 'c07.elements_compared': 100000, 'c07.permutation_runs': 12000,
                        'c07.defect_reports_checked': 5000, 'm6.invariant_evaluations': 1000000}}

PHASES = ['conf', 'setup', 'act', 'before-assert', 'assert', 'cleanup']
INSTR_PHASES = ['conf', 'setup', 'before-assert', 'assert', 'cleanup']


# ============================================================================================ generation
# A document = {'name': relpath, 'items': [item...]}   item = [kind, ...]
#   ['hdr', phase, style]         style: 0 '[p]', 1 ' [p]', 2 '[p]  '
#   ['hdr_unknown']               '[no-such-phase]'
#   ['comment', text] ['blank']
#   ['i1', id]  one-line instruction     ['im', id] multi-line (here-doc)   ['ip', id] multi-line (parentheses)
#   ['ids', id] description on same line ['idp', id, nlines] description on preceding line(s)
#   ['act', text]  act source line (text as written, may be escaped)
#   ['inc', child_doc]            including directive
#   ['defect']                    unknown instruction (for defect cases)

def instr_lines(kind, ident, phase, log):
    """Source lines (instruction's own lines) for an instruction with identity `ident` valid in `phase`.
    With log != None the instruction appends its id to the log file when executed."""
    if phase == 'conf':
        base = ['status = PASS']
        if kind in ('im', 'ip'):
            kind = 'i1'
    elif log is not None:
        if kind == 'im' and phase != 'assert':
            # the here-document becomes the program's stdin; the id is logged all the same
            base = ['$ echo %s >> %s' % (ident, log)]
            kind = 'i1'
        else:
            base = ['$ echo %s >> %s' % (ident, log)]
    else:
        if phase == 'assert':
            base = ['exit-code == 0']
        else:
            base = ['dir d-%s' % ident]
    if kind in ('i1', 'ids', 'idp'):
        return base
    if kind == 'im':
        if phase == 'assert':
            return ['stdout -from $ echo x', '    equals <<EOF', 'x', '# not a comment', '', '[setup]', 'EOF'] \
                if log is None else base
        return ['file f-%s.txt = <<EOF' % ident, 'line 1 of %s' % ident, '# not a comment', '', '[assert]', 'EOF']
    if kind == 'ip':
        if log is not None:
            return base
        # an expression inside parentheses may span several lines (also empty ones)
        return ['def text-matcher M_%s = ( is-empty ||' % ident.upper(), '', '   ! is-empty &&', '  is-empty )']
    raise ValueError(kind)


def defect_lines(phase, v):
    """A syntactically defective element: v=0 an unknown instruction (one line); v=1, 2 a multi-line instruction whose
    defective token sits on its LAST line (of 3 resp. 4 lines, one of them empty)."""
    if v == 0 or phase == 'conf':
        return ['no-such-instruction-c07 some arguments']
    head = 'exit-code ( == 0 ||' if phase == 'assert' else 'def integer-matcher MD_C07 = ( == 0 ||'
    if v == 1:
        return [head, '   == 1 ||', '  == == 2 )']
    return [head, '', '   == 1 ||', '\t== == 2 )']


def render(doc, log=None, files=None, parent_dir=''):
    """-> files {relpath: text}; also annotates nothing.  Returns the files dict."""
    if files is None:
        files = {}
    out = []
    phase = doc.get('start_phase', 'act')
    for it in doc['items']:
        k = it[0]
        if k == 'hdr':
            p, style = it[1], it[2]
            out.append([' [%s]', '[%s]', '[%s]  ', '\t[%s]'][style % 4] % p if style else '[%s]' % p)
            phase = p
        elif k == 'hdr_unknown':
            out.append('[no-such-phase]')
        elif k == 'comment':
            out.append('# ' + it[1])
        elif k == 'blank':
            out.append(it[1] if len(it) > 1 else '')
        elif k in ('i1', 'im', 'ip'):
            out.extend(instr_lines(k, it[1], phase, log))
        elif k == 'ids':
            ls = instr_lines('i1', it[1], phase, log)
            out.append('`description of %s` %s' % (it[1], ls[0]))
        elif k == 'idp':
            n = it[2]
            if n == 0:
                out.append('``')  # an empty description
            elif n == 1:
                out.append('`description of %s`' % it[1])
            else:
                out.append('`description of %s' % it[1])
                for j in range(n - 2):
                    out.append('more description %d' % j)
                out.append('end of description`')
            out.extend(it[3] if len(it) > 3 else [])  # blank / comment lines between the description and its instruction
            out.extend(instr_lines('i1', it[1], phase, log))
        elif k == 'act':
            out.append(it[1])
        elif k == 'inc':
            child = it[1]
            out.append('including ' + child['ref'])
            child_dir = os.path.normpath(os.path.join(os.path.dirname(doc['name']), os.path.dirname(child['ref'])))
            child['name'] = os.path.normpath(os.path.join(os.path.dirname(doc['name']), child['ref']))
            child['start_phase'] = phase
            render(child, log, files)
        elif k == 'inc_raw':
            out.append('including ' + it[1])
        elif k == 'defect':
            out.extend(defect_lines(phase, it[1] if len(it) > 1 else 0))
        else:
            raise ValueError(k)
    files[doc['name']] = '\n'.join(out) + ('\n' if doc.get('final_nl', True) else '')
    return files


def unescape_act(line):
    # the escape character is the first non-space character of the line (an indented `[` would be a header too)
    rest = line.lstrip(' \t')
    space = line[:len(line) - len(rest)]
    if rest.startswith('\\[') or rest.startswith('\\\\'):
        return space + rest[1:]
    return line


def expected_elements(doc, log=None, chain=(), acc=None, start_phase='act', ref_from_parent=None):
    """The structure the document set was generated from -> {phase: [element...]}, in document order with included
    files spliced in place.  element = dict(file=<path as referred from its referrer>, line=<first line>, lines=[..],
    chain=[(referrer file ref, line, text)...], desc=str|None)"""
    if acc is None:
        acc = {p: [] for p in PHASES}
    phase = start_phase
    ln = 1
    file_ref = ref_from_parent if ref_from_parent is not None else doc['name']
    for it in doc['items']:
        k = it[0]
        if k == 'hdr':
            phase = it[1]
            ln += 1
        elif k in ('comment', 'blank'):
            ln += 1
        elif k in ('i1', 'im', 'ip'):
            ls = instr_lines(k, it[1], phase, log)
            acc[phase].append({'file': file_ref, 'line': ln, 'lines': ls, 'chain': list(chain), 'desc': None})
            ln += len(ls)
        elif k == 'ids':
            ls = instr_lines('i1', it[1], phase, log)
            acc[phase].append({'file': file_ref, 'line': ln, 'lines': ['`description of %s` %s' % (it[1], ls[0])],
                               'chain': list(chain), 'desc': 'description of %s' % it[1], 'desc_same_line': True})
            ln += 1
        elif k == 'idp':
            n = it[2]
            ls = instr_lines('i1', it[1], phase, log)
            if n == 0:
                desc = ''
                n = 1
            elif n == 1:
                desc = 'description of %s' % it[1]
            else:
                desc = '\n'.join(['description of %s' % it[1]] + ['more description %d' % j for j in range(n - 2)] +
                                 ['end of description'])
            gap = len(it[3]) if len(it) > 3 else 0
            acc[phase].append({'file': file_ref, 'line': ln + n + gap, 'lines': ls, 'chain': list(chain), 'desc': desc})
            ln += n + gap + len(ls)
        elif k == 'act':
            # consecutive act source lines form one element (the act phase is not a sequence of instructions)
            prev = acc[phase][-1] if acc[phase] else None
            if prev is not None and prev.get('act') and prev.get('_next_ln') == ln and prev.get('_doc') is doc:
                prev['lines'].append(unescape_act(it[1]))
                prev['_next_ln'] = ln + 1
            else:
                acc[phase].append({'file': file_ref, 'line': ln, 'lines': [unescape_act(it[1])], 'chain': list(chain),
                                   'desc': None, 'act': True, '_next_ln': ln + 1, '_doc': doc})
            ln += 1
        elif k == 'inc':
            child = it[1]
            link = (file_ref, ln, 'including ' + child['ref'])
            expected_elements(child, log, tuple(chain) + (link,), acc, phase, child['ref'])
            ln += 1
        else:
            raise ValueError(k)
    return acc


# ---- small-scope enumeration and random generation --------------------------------------------------------------
def _alphabet_reduced():
    return [['hdr', 'setup', 0], ['hdr', 'assert', 1], ['hdr', 'act', 0], ['comment', 'c'], ['blank'], ['i1', None],
            ['im', None], ['idp', None, 2], ['act', '\\[setup]']]


def _assign_ids(items, prefix='x'):
    n = 0
    out = []
    for it in items:
        it = list(it)
        if it[0] in ('i1', 'im', 'ip', 'ids', 'idp'):
            it[1] = '%s%d' % (prefix, n)
            n += 1
        out.append(it)
    return out


def _valid_sequence(items, start_phase='act'):
    """Line kinds must fit the phase they land in: instructions only in instruction phases, act lines only in act."""
    phase = start_phase
    for it in items:
        if it[0] == 'hdr':
            phase = it[1]
        elif it[0] in ('i1', 'im', 'ip', 'ids', 'idp', 'inc', 'defect', 'comment', 'blank'):
            if phase == 'act' and it[0] not in ():
                return False
        elif it[0] == 'act':
            if phase != 'act':
                return False
    return True


def _rand_items(rng, start_phase, depth, idgen, allow_hdr=True, max_items=8):
    items = []
    phase = start_phase
    n = rng.randrange(1, max_items + 1)
    for j in range(n):
        r = rng.random()
        if allow_hdr and (r < 0.2 or (j == 0 and phase == 'act' and r < 0.75)):
            phase = rng.choice(PHASES)
            items.append(['hdr', phase, rng.randrange(4)])
            continue
        if phase == 'act':
            t = rng.choice(['echo act-line', '\\[setup]', '\\\\[x', 'x [y] z', '  indented', '\\[no-such-phase]',
                            '    \\[setup]', '\t\\[assert] x', '  \\\\[y', ' \\[no-such-phase]'])
            items.append(['act', t])
            continue
        r = rng.random()
        if r < 0.15:
            items.append(['comment', 'comment %d' % rng.randrange(100)])
        elif r < 0.3:
            items.append(['blank', rng.choice(['', '   ', '\t'])])
        elif r < 0.5:
            items.append(['i1', idgen()])
        elif r < 0.62:
            items.append(['im', idgen()])
        elif r < 0.7:
            items.append(['ip', idgen()])
        elif r < 0.78:
            items.append(['ids', idgen()])
        elif r < 0.86:
            items.append(['idp', idgen(), rng.choice((0, 1, 1, 2, 3))] +
                         ([rng.choice([[''], ['# a comment'], ['', '   # indented comment', ''], ['#c1', '#c2'],
                                       ['   ', '\t']])] if rng.random() < 0.4 else []))
        elif depth > 0:
            sub = rng.choice(['', 'sub/', 'sub/deeper/', '../'])
            ref = '%sinc-%s.xly' % (sub, idgen())
            items.append(['inc', {'ref': ref, 'items': _rand_items(rng, phase, depth - 1, idgen, True, 5),
                                  'final_nl': rng.random() < 0.8}])
        else:
            items.append(['i1', idgen()])
    return items


def _idgen():
    c = itertools.count()
    return lambda: 'n%d' % next(c)


def _blocks_doc(rng, idgen, nblocks, with_includes):
    """A document for execution: blocks of (phase, items); exactly one act line over the whole document."""
    phases = [rng.choice(['setup', 'before-assert', 'assert', 'cleanup', 'conf']) for _ in range(nblocks)]
    act_at = rng.randrange(nblocks)
    phases[act_at] = 'act'
    blocks = []
    for bi, p in enumerate(phases):
        items = []
        if p == 'act':
            items.append(['act', None])  # filled at render time with the logging command
        else:
            for _ in range(rng.randrange(1, 4)):
                r = rng.random()
                if r < 0.15:
                    items.append(['comment', 'c'])
                elif r < 0.25:
                    items.append(['blank'])
                elif r < 0.6:
                    items.append(['i1', idgen()])
                elif r < 0.7:
                    items.append(['ids', idgen()])
                elif r < 0.8:
                    items.append(['idp', idgen(), rng.choice((1, 2))])
                elif with_includes and r < 0.95:
                    sub = rng.choice(['', 'sub/'])
                    inner = []
                    for _ in range(rng.randrange(1, 3)):
                        inner.append(['i1', idgen()])
                    if rng.random() < 0.5:
                        q = rng.choice(['setup', 'cleanup', 'assert', 'before-assert'])
                        inner.append(['hdr', q, 0])
                        inner.append(['i1', idgen()])
                    items.append(['inc', {'ref': '%sinc-%s.xly' % (sub, idgen()), 'items': inner}])
                else:
                    items.append(['i1', idgen()])
        blocks.append({'phase': p, 'items': items, 'explicit_header': not (bi == 0 and p == 'act' and rng.random() < 0.5)})
    return blocks


def _actmerge_layout(rng, n_act_blocks, implicit_first):
    """[(phase, number of lines)]: n act blocks of 1-3 lines each with blocks of other phases (one marker instruction
    each) between and around them; with implicit_first the document starts with act lines without a header."""
    layout = []
    others = ['setup', 'before-assert', 'assert', 'cleanup']
    for i in range(n_act_blocks):
        if not (i == 0 and implicit_first):
            for _ in range(rng.choice((0, 1, 1, 2)) if i else rng.choice((0, 1))):
                layout.append([rng.choice(others), 1])
        layout.append(['act', rng.choice((1, 1, 2, 3))])
        if i == 0 and implicit_first:
            layout[-1].append('implicit')
    if rng.random() < 0.6:
        layout.append([rng.choice(others), 1])
    return layout


def run_actmerge(case, ctx):
    """help case / help spec: a phase may be declared several times, the contents are merged in file order - also
    for [act], whose lines are the source code of a source-interpreter actor."""
    ses = ctx.get_session()
    d = ses.new_case_dir()
    log = os.path.join(d, 'log.txt')
    lines = []
    want = {'setup': [], 'act': [], 'before-assert': [], 'assert': [], 'cleanup': []}
    n = 0
    body = []
    for blk in case['layout']:
        ph, k = blk[0], blk[1]
        if len(blk) < 3:
            body.append('[%s]' % ph)
        for _ in range(k):
            n += 1
            tag = '%s%d' % ('A' if ph == 'act' else 'I', n)
            want[ph].append(tag)
            body.append(('echo %s >> %s' if ph == 'act' else '$ echo %s >> %s') % (tag, log))
        if n % 3 == 0:
            body.append('')
    lines = body + ['[conf]', 'actor = source % /bin/sh']
    text = '\n'.join(lines) + '\n'
    from vf import driver
    driver.write_files(d, {'main.case': text})
    r = ses.run(['main.case'], cwd=d, mode='normal')
    ctx.count('c07.act_merge_runs')
    viol, inconc = [], []
    if r.timed_out:
        inconc.append('watchdog')
    else:
        got = []
        if os.path.exists(log):
            with open(log) as f:
                got = f.read().split('\n')[:-1]  # one line per executed source line / instruction
        exp = [t for p in ('setup', 'act', 'before-assert', 'assert', 'cleanup') for t in want[p]]
        if r.exc is not None or r.rc != 0:
            viol.append({'what': 'C07 valid document with [act] declared %d times does not PASS: rc=%r %s'
                                 % (sum(1 for b in case['layout'] if b[0] == 'act'), r.rc, r.err[:300]),
                         'detail': {'case_text': text, 'exc': r.exc}})
        elif got != exp:
            viol.append({'what': 'C07 [act] declared several times: executed %r, the document denotes %r (blocks of a '
                                 'phase merged in file order)' % (got, exp), 'detail': {'case_text': text}})
    for m in _take_m6():
        viol.append({'what': 'C07 ' + m, 'detail': {'case_text': text}})
    ses.clean_tmp()
    ses.drop(d)
    return {'classes': [('actmerge', sum(1 for b in case['layout'] if b[0] == 'act'),
                         any(len(b) > 2 for b in case['layout']), len(case['layout']))],
            'viol': viol, 'inconclusive': inconc, 'evaluations': 1}


def cases(tier, seed):
    # ---- exhaustive small scope (parse) ---------------------------------------------------------------------
    alpha = _alphabet_reduced()
    for n in (1, 2, 3):
        for combo in itertools.product(range(len(alpha)), repeat=n):
            items = [alpha[i] for i in combo]
            if not _valid_sequence(items):
                continue
            yield {'kind': 'parse', 'doc': {'name': 'main.case', 'items': _assign_ids(items),
                                            'final_nl': (sum(combo) % 3 != 0)}}
    # ---- fixed inclusion shapes ----------------------------------------------------------------------------
    for shape in ('self', 'cycle2', 'cycle3', 'cycle_to_root2', 'cycle_to_root3', 'cycle_to_root_implicit_act', 'include_symlink_loop', 'include_symlink_loop2', 'include_dangling_link', 'diamond', 'missing', 'unknown_phase', 'unknown_phase_in_included',
                  'cycle_via_dotdot', 'include_dir', 'unknown_phase_then_valid_header', 'unknown_phase_first_line',
                  'unknown_phase_last_line', 'same_file_twice_different_phases'):
        for ph in ('setup', 'cleanup', 'assert'):
            yield {'kind': 'graph', 'shape': shape, 'phase': ph}
    # ---- located reports through deep inclusion chains with directory parts, root file named with a directory ----
    for depth in (1, 2, 3, 4):
        for dirs in itertools.product(('', 'd/', 'd/e/', '../'), repeat=depth):
            if depth == 4 and (dirs.count('') + dirs.count('../')) > 2:
                continue
            for root_form in ('plain', 'in-dir'):
                for ph in ('setup', 'cleanup'):
                    if depth >= 3 and ph == 'cleanup' and root_form == 'plain':
                        continue
                    yield {'kind': 'chainloc', 'dirs': list(dirs), 'root_form': root_form, 'phase': ph}
    rng = common.rng_for(seed, ID)
    n_parse = 2500 if tier == 'quick' else 30000
    for _ in range(n_parse):
        idg = _idgen()
        doc = {'name': 'main.case', 'items': _rand_items(rng, 'act', rng.choice((0, 1, 2, 3)), idg, True, 14),
               'final_nl': rng.random() < 0.85}
        yield {'kind': 'parse', 'doc': doc}
    n_perm = 250 if tier == 'quick' else 3000
    for _ in range(n_perm):
        idg = _idgen()
        nb = rng.choice((2, 3, 3, 4))
        yield {'kind': 'perm', 'blocks': _blocks_doc(rng, idg, nb, rng.random() < 0.5)}
    # [act] declared several times and executed: the source the actor gets is the act lines in file order
    for k in range(24):
        r2 = common.rng_for(0, ID, 'actmerge-core', k)
        yield {'kind': 'actmerge', 'layout': _actmerge_layout(r2, 2 + k % 3, implicit_first=k % 4 == 0)}
    for _ in range(40 if tier == 'quick' else 600):
        yield {'kind': 'actmerge', 'layout': _actmerge_layout(rng, rng.choice((2, 3, 4, 5)), rng.random() < 0.3)}
    n_def = 600 if tier == 'quick' else 6000
    for _ in range(n_def):
        idg = _idgen()
        doc = {'name': 'main.case', 'items': _rand_items(rng, 'act', rng.choice((0, 1, 2, 3)), idg, True, 8)}
        yield {'kind': 'defect', 'doc': doc, 'pick': rng.randrange(10 ** 6)}


# ============================================================================================ monitors
_M6 = {'evals': 0, 'violations': []}


def _install_m6():
    from exactly_lib.section_document import parse_source as ps
    cls = ps.ParseSource
    if getattr(cls, '_vf_m6', False):
        return
    cls._vf_m6 = True

    def check(self, where):
        _M6['evals'] += 1
        orig = self.__dict__.get('_vf_orig')
        if orig is None:
            return
        if not self.has_current_line:
            if self.remaining_source != '':
                _M6['violations'].append('M6 after %s: no current line but remaining source %r' %
                                         (where, self.remaining_source[:40]))
            return
        lines = orig.split('\n')
        n = self.current_line_number
        if not (1 <= n <= len(lines)):
            _M6['violations'].append('M6 after %s: current_line_number %r outside 1..%d' % (where, n, len(lines)))
            return
        if self.current_line_text != lines[n - 1]:
            _M6['violations'].append('M6 after %s: current_line_text %r is not line %d of the source (%r)' %
                                     (where, self.current_line_text[:60], n, lines[n - 1][:60]))
            return
        col = self.column_index
        if not (0 <= col <= len(lines[n - 1])):
            _M6['violations'].append('M6 after %s: column %r outside the current line (length %d)' %
                                     (where, col, len(lines[n - 1])))
            return
        offset = sum(len(l) + 1 for l in lines[:n - 1]) + col
        if orig[offset:] != self.remaining_source:
            _M6['violations'].append('M6 after %s: consumed prefix + remaining source != original text (line %d col %d)'
                                     % (where, n, col))

    real_init = cls.__init__

    def __init__(self, source_string, *a, **kw):
        real_init(self, source_string, *a, **kw)
        self._vf_orig = source_string
        check(self, '__init__')

    cls.__init__ = __init__
    for name in ('consume_part_of_current_line', 'consume_initial_space_on_current_line', 'consume_current_line',
                 'consume'):
        real = getattr(cls, name)

        def make(real, name):
            def wrapper(self, *a, **kw):
                r = real(self, *a, **kw)
                check(self, name)
                return r

            return wrapper

        setattr(cls, name, make(real, name))
    real_catch = cls.catch_up_with

    def catch_up_with(self, other):
        r = real_catch(self, other)
        if other.__dict__.get('_vf_orig') is not None and self.__dict__.get('_vf_orig') is None:
            self._vf_orig = other._vf_orig
        check(self, 'catch_up_with')
        return r

    cls.catch_up_with = catch_up_with


_PARSER = None


def _parser():
    global _PARSER
    if _PARSER is None:
        from exactly_lib.cli_default.program_modes.test_case import default_instructions_setup
        from exactly_lib.common import instruction_name_and_argument_splitter
        from exactly_lib.processing.instruction_setup import TestCaseParsingSetup
        from exactly_lib.processing.parse.act_phase_source_parser import ActPhaseParser
        from exactly_lib.processing.parse import test_case_parser
        _PARSER = test_case_parser.new_parser(
            TestCaseParsingSetup(instruction_name_and_argument_splitter.splitter,
                                 default_instructions_setup.INSTRUCTIONS_SETUP, ActPhaseParser()))
    return _PARSER


def setup_worker(ctx):
    common.put_repo_first_on_path()
    _install_m6()


def teardown_worker(ctx):
    return {'m6.invariant_evaluations': _M6['evals']}


def _take_m6():
    v = list(_M6['violations'][:5])
    del _M6['violations'][:]
    return v


# ============================================================================================ execution
def _kinds_key(doc, acc=None, depth=0):
    acc = acc if acc is not None else {'kinds': set(), 'depth': 0}
    acc['depth'] = max(acc['depth'], depth)
    for it in doc['items']:
        acc['kinds'].add(it[0] if it[0] != 'hdr' else 'hdr' + str(it[2] % 4 and 1))
        if it[0] == 'inc':
            _kinds_key(it[1], acc, depth + 1)
    return acc


def run_parse(case, ctx):
    import pathlib
    from exactly_lib.processing.test_case_processing import test_case_reference_of_source_file
    from exactly_lib.section_document.parse_source import ParseSource
    from exactly_lib.section_document.model import ElementType
    from vf import driver
    ses = ctx.get_session()
    doc = case['doc']
    files = render(doc)
    d = ses.new_case_dir()
    driver.write_files(d, {os.path.join('root', k): v for k, v in files.items()})
    root = os.path.join(d, 'root')
    exp = expected_elements(doc)
    viol = []
    cwd0 = os.getcwd()
    os.chdir(root)
    try:
        f = pathlib.Path('main.case')
        try:
            tc = _parser().apply(test_case_reference_of_source_file(f), ParseSource(files['main.case']))
        except Exception as ex:
            tc = None
            viol.append({'what': 'C07 parser raised %s: %s on a document of complete, valid elements' %
                                 (type(ex).__name__, str(ex)[:200]), 'detail': {'files': files}})
    finally:
        os.chdir(cwd0)
    ncomp = 0
    if tc is not None:
        for name, sec in zip(PHASES, tc):
            got = []
            for e in sec.elements:
                if e.element_type is not ElementType.INSTRUCTION:
                    continue
                sli = e.source_location_info
                got.append({'file': str(sli.file_path_rel_referrer), 'line': e.source.first_line_number,
                            'lines': list(e.source.lines),
                            'chain': [[str(c.file_path_rel_referrer), c.source.first_line_number,
                                       '\n'.join(c.source.lines)] for c in sli.file_inclusion_chain],
                            'desc': e.instruction_info.description})
                if name == 'act':
                    try:
                        got[-1]['act_lines'] = list(e.instruction_info.instruction.source_code().lines)
                    except Exception as ex:
                        got[-1]['act_lines'] = ['<%s>' % ex]
            want = [{k: v for k, v in w.items() if not k.startswith('_')} for w in exp[name]]
            ncomp += max(len(got), len(want))
            if len(got) != len(want):
                viol.append({'what': 'C07 phase [%s] has %d instruction elements, the document has %d: got %r' %
                                     (name, len(got), len(want), [g['lines'][0] for g in got][:6]),
                             'detail': {'files': files, 'got': got, 'want': want}})
                continue
            for g, w in zip(got, want):
                problems = []
                if w.get('act'):
                    if g.get('act_lines') != w['lines']:
                        problems.append('act source %r, written (after un-escaping) %r' % (g.get('act_lines'), w['lines']))
                elif w.get('desc_same_line'):
                    # the element's own lines: the statement says text of the source lines it came from
                    if not (g['lines'] == w['lines'] or
                            g['lines'] == [w['lines'][0].split('` ', 1)[1]]):
                        problems.append('source lines %r, document %r' % (g['lines'], w['lines']))
                elif g['lines'] != w['lines']:
                    problems.append('source lines %r, document %r' % (g['lines'], w['lines']))
                if g['line'] != w['line']:
                    problems.append('first line number %d, document %d' % (g['line'], w['line']))
                if os.path.normpath(g['file']) != os.path.normpath(w['file']):
                    problems.append('file %r, document %r' % (g['file'], w['file']))
                gch = [[os.path.normpath(c[0]), c[1], c[2]] for c in g['chain']]
                wch = [[os.path.normpath(c[0]), c[1], c[2]] for c in w['chain']]
                if gch != wch:
                    problems.append('including chain %r, document %r' % (gch, wch))
                if not w.get('act') and (g['desc'] or None) != (w['desc'] or None):
                    gd = re.sub(r'\s+', ' ', g['desc'] or '')
                    wd = re.sub(r'\s+', ' ', w['desc'] or '')
                    if gd != wd:
                        problems.append('description %r, document %r' % (g['desc'], w['desc']))
                if problems:
                    viol.append({'what': 'C07 element of [%s] (%r): %s' % (name, w['lines'][0], '; '.join(problems)),
                                 'detail': {'files': files, 'got': g, 'want': w}})
    ctx.count('c07.elements_compared', ncomp)
    for m in _take_m6():
        viol.append({'what': 'C07 ' + m, 'detail': {'files': files}})
    ses.drop(d)
    kk = _kinds_key(doc)
    res = {'classes': [('parse', ','.join(sorted(kk['kinds'])), kk['depth'])] if tc is not None else [],
           'viol': viol[:6], 'evaluations': 1}
    if kk['depth'] == 2 and 'idp' in kk['kinds']:
        res['sample'] = {'files': files, 'expected_per_phase': {p: [(e['file'], e['line'], e['lines'][0]) for e in v]
                                                                 for p, v in exp.items() if v}}
    return res


# ---- permutations --------------------------------------------------------------------------------------------
def _doc_from_blocks(blocks, order, log):
    items = []
    for pos, bi in enumerate(order):
        b = blocks[bi]
        if not (pos == 0 and not b['explicit_header'] and b['phase'] == 'act'):
            items.append(['hdr', b['phase'], 0])
        for it in b['items']:
            if it[0] == 'act':
                items.append(['act', '$ echo ACT >> ' + log])
            else:
                items.append(it)
    return {'name': 'main.case', 'items': items}


def _expected_log(blocks, log):
    doc = _doc_from_blocks(blocks, range(len(blocks)), log)
    exp = expected_elements(doc, log)
    seq = []
    for p in ('setup', 'act', 'before-assert', 'assert', 'cleanup'):
        for e in exp[p]:
            if p == 'act':
                seq.append('ACT')
            else:
                m = re.search(r'echo (\S+) >>', e['lines'][-1] if not e.get('desc_same_line') else e['lines'][0])
                if m:
                    seq.append(m.group(1))
    return seq


def _phases_touched(block):
    """phases that receive instructions from this block (its own, and those declared inside files it includes)"""
    ps = {block['phase']}

    def walk(items):
        for it in items:
            if it[0] == 'hdr':
                ps.add(it[1])
            elif it[0] == 'inc':
                walk(it[1]['items'])

    walk(block['items'])
    return ps


def run_perm(case, ctx):
    from vf import driver
    ses = ctx.get_session()
    blocks = case['blocks']
    nb = len(blocks)
    d = ses.new_case_dir()
    log = os.path.join(d, 'log.txt')
    want = _expected_log(blocks, log)
    viol = []
    inconc = []
    orders = []
    for perm in itertools.permutations(range(nb)):
        # keep the relative order of blocks of the same phase
        ok = True
        touched = [_phases_touched(b) for b in blocks]
        for p in set().union(*touched):
            idx = [i for i in perm if p in touched[i]]
            if idx != sorted(idx):
                ok = False
        if ok:
            orders.append(perm)
    outcomes = set()
    n = 0
    for perm in orders:
        doc = _doc_from_blocks(blocks, perm, log)
        files = render(doc, log)
        root = os.path.join(d, 'p%d' % n)
        n += 1
        driver.write_files(root, files)
        if os.path.exists(log):
            os.remove(log)
        r = ses.run(['main.case'], cwd=root, mode='normal')
        ctx.count('c07.permutation_runs')
        if r.timed_out:
            inconc.append('watchdog')
            continue
        got = []
        if os.path.exists(log):
            with open(log) as f:
                got = f.read().split()
        outcomes.add((r.rc, r.out))
        if r.exc is not None or r.rc != 0:
            viol.append({'what': 'C07 permutation %r of a valid document does not PASS: rc=%r %s' %
                                 (perm, r.rc, r.err[:300]), 'detail': {'files': files, 'exc': r.exc}})
        elif got != want:
            viol.append({'what': 'C07 permutation %r of the phase blocks: instructions executed %r, the document '
                                 'denotes %r (phase order, file order within a phase, includes spliced in place)' %
                                 (perm, got, want), 'detail': {'files': files}})
        for m in _take_m6():
            viol.append({'what': 'C07 ' + m, 'detail': {'files': files}})
        ses.clean_tmp()
    if len(outcomes) > 1:
        viol.append({'what': 'C07 outcome depends on the order in which phases are declared: %r' % sorted(outcomes),
                     'detail': {'blocks': blocks}})
    ses.drop(d)
    has_inc = any(it[0] == 'inc' for b in blocks for it in b['items'])
    res = {'classes': [('perm', nb, len(orders), 'inc' if has_inc else 'noinc',
                        tuple(sorted(set(b['phase'] for b in blocks))))],
           'viol': viol[:4], 'inconclusive': inconc, 'evaluations': len(orders)}
    if nb == 3 and has_inc:
        res['sample'] = {'blocks': blocks, 'permutations_run': len(orders), 'expected_log': want}
    return res


# ---- defects --------------------------------------------------------------------------------------------------
def _instruction_slots(doc, path=()):
    """All (path-of-doc, index) positions where an instruction-phase item may be inserted."""
    slots = []
    phase = doc.get('start_phase', 'act')
    for i, it in enumerate(doc['items']):
        if it[0] == 'hdr':
            phase = it[1]
        if phase != 'act' and it[0] != 'hdr' or (it[0] == 'hdr' and it[1] != 'act'):
            slots.append((path, i + 1, phase if it[0] != 'hdr' else it[1]))
        if it[0] == 'inc':
            it[1]['start_phase'] = phase
            slots.extend(_instruction_slots(it[1], path + (i,)))
    return slots


def _doc_at(doc, path):
    for i in path:
        doc = doc['items'][i][1]
    return doc


def run_defect(case, ctx):
    from vf import driver
    ses = ctx.get_session()
    doc = case['doc']
    doc['start_phase'] = 'act'
    slots = _instruction_slots(doc)
    if not slots:
        doc['items'].append(['hdr', 'setup', 0])
        slots = [((), len(doc['items']), 'setup')]
    path, idx, phase = slots[case['pick'] % len(slots)]
    target = _doc_at(doc, path)
    variant = (case['pick'] // 5) % 3
    target['items'].insert(idx, ['defect', variant])
    dl = defect_lines(phase, variant)
    files = render(doc)
    # where is the defect, by construction?
    chain = []
    cur = doc
    ref = 'main.case'
    shown = 'main.case'
    for i in path:
        ln = _line_of_item(cur, i)
        child = cur['items'][i][1]
        chain.append((shown, ln, 'including ' + child['ref']))
        cur = child
        shown = os.path.normpath(os.path.join(os.path.dirname(shown), child['ref']))
    dline = _line_of_item(cur, idx)
    d = ses.new_case_dir()
    root = os.path.join(d, 'root')
    driver.write_files(root, files)
    r = ses.run(['main.case'], cwd=root, mode='normal')
    ctx.count('c07.defect_reports_checked')
    viol = []
    inconc = []
    if r.timed_out:
        inconc.append('watchdog')
    elif r.exc is not None:
        viol.append({'what': 'C07 exception escaped: ' + r.exc[-200:], 'detail': {'files': files}})
    else:
        if r.rc != 65 or r.out != 'SYNTAX_ERROR\n':
            viol.append({'what': 'C07 document with a syntactically defective element at %s line %d: outcome %r/%r, expected '
                                 'SYNTAX_ERROR/65' % (shown, dline, r.out.strip(), r.rc),
                         'detail': {'files': files, 'stderr': r.err[:600]}})
        else:
            err = r.err
            pos = 0
            problems = []
            for (f, ln, text) in chain:
                m = re.search(r'(?m)^%s, line %d$' % (re.escape(f), ln), err[pos:])
                if not m:
                    problems.append('including file %s, line %d not named (in order)' % (f, ln))
                    continue
                pos += m.end()
                if text not in err[pos:pos + len(text) + 10]:
                    problems.append('text of the including directive %r not shown after its location' % text)
            m = re.search(r'(?m)^%s, line %d$' % (re.escape(shown), dline), err[pos:])
            if not m:
                problems.append('location "%s, line %d" of the defective element not reported' % (shown, dline))
            if len(dl) == 1:
                if dl[0] not in err:
                    problems.append('source text of the defective element not shown')
            else:
                # every line of the element before the one with the defective token in full, that line at least up
                # to the token
                for l in dl[:-1]:
                    if l.strip() and l.strip() not in err:
                        problems.append('source line %r of the (multi-line) defective element not shown' % l)
                if dl[-1].strip()[:5] not in err:
                    problems.append('the source line holding the defective token (%r) is not shown' % dl[-1])
            if ('In [%s]' % phase) not in err:
                problems.append('phase [%s] not named' % phase)
            if problems:
                viol.append({'what': 'C07 error report for a defect at %s line %d (chain %r): %s' %
                                     (shown, dline, [(c[0], c[1]) for c in chain], '; '.join(problems)),
                             'detail': {'files': files, 'stderr': err[:1500]}})
    for m in _take_m6():
        viol.append({'what': 'C07 ' + m, 'detail': {'files': files}})
    ses.clean_tmp()
    ses.drop(d)
    res = {'classes': [('defect', len(chain), phase, 'first' if idx <= 1 else 'later', len(dl))], 'viol': viol,
           'inconclusive': inconc}
    if len(chain) == 2:
        res['sample'] = {'files': files, 'defect_at': [shown, dline], 'chain': chain, 'stderr': r.err[:700]}
    return res


def _line_of_item(doc, index):
    """1-based line number at which item `index` of doc starts (counting rendered lines of the items before it)."""
    ln = 1
    phase = doc.get('start_phase', 'act')
    for i, it in enumerate(doc['items']):
        if i == index:
            return ln
        k = it[0]
        if k == 'hdr':
            phase = it[1]
            ln += 1
        elif k in ('comment', 'blank', 'act', 'inc', 'inc_raw', 'hdr_unknown', 'ids'):
            ln += 1
        elif k == 'defect':
            ln += len(defect_lines(phase, it[1] if len(it) > 1 else 0))
        elif k in ('i1', 'im', 'ip'):
            ln += len(instr_lines(k, it[1], phase, None))
        elif k == 'idp':
            ln += max(1, it[2]) + (len(it[3]) if len(it) > 3 else 0) + len(instr_lines('i1', it[1], phase, None))
    return ln


# ---- inclusion graphs / unknown phases --------------------------------------------------------------------------
def run_graph(case, ctx):
    from vf import driver
    ses = ctx.get_session()
    ph = case['phase']
    shape = case['shape']
    marker_dir = None
    files = {}
    I = 'dir made-by-%s' if ph != 'assert' else 'exit-code == 0 %s'
    inst = ('dir d-%s' if ph != 'assert' else 'exists -rel-act . : type dir # %s')
    expect = None
    chain = None
    if shape == 'self':
        files['main.case'] = '[%s]\nincluding main.case\n' % ph
        expect = 'FILE_ACCESS_ERROR'
        chain = [('main.case', 2)]
    elif shape == 'cycle2':
        files['main.case'] = '[%s]\nincluding a.xly\n' % ph
        files['a.xly'] = 'including b.xly\n'
        files['b.xly'] = 'including a.xly\n'
        expect = 'FILE_ACCESS_ERROR'
    elif shape == 'cycle3':
        files['main.case'] = '[%s]\nincluding s/a.xly\n' % ph
        files['s/a.xly'] = 'including ../b.xly\n'
        files['b.xly'] = 'including t/c.xly\n'
        files['t/c.xly'] = 'including ../s/a.xly\n'
        expect = 'FILE_ACCESS_ERROR'
    elif shape == 'cycle_to_root2':
        files['main.case'] = '[%s]\nincluding a.xly\n' % ph
        files['a.xly'] = 'including main.case\n'
        expect = 'FILE_ACCESS_ERROR'
        chain = [('main.case', 2), ('a.xly', 1)]
    elif shape == 'cycle_to_root3':
        files['main.case'] = '[%s]\n\nincluding s/a.xly\n' % ph
        files['s/a.xly'] = 'including ../b.xly\n'
        files['b.xly'] = '\n\nincluding ./s/../main.case\n'
        expect = 'FILE_ACCESS_ERROR'
        chain = [('main.case', 3), ('s/a.xly', 1), ('b.xly', 3)]
    elif shape == 'cycle_to_root_implicit_act':
        # the root file starts with act lines (no header): on a second lap they would be read as instructions
        files['main.case'] = 'my-program arg\n[%s]\nincluding a.xly\n' % ph
        files['a.xly'] = 'including main.case\n'
        expect = 'FILE_ACCESS_ERROR'
        chain = [('main.case', 3), ('a.xly', 1)]
    elif shape == 'cycle_via_dotdot':
        files['main.case'] = '[%s]\nincluding s/a.xly\n' % ph
        files['s/a.xly'] = 'including ../s/../s/a.xly\n'
        expect = 'FILE_ACCESS_ERROR'
    elif shape == 'diamond':
        files['main.case'] = '[%s]\nincluding a.xly\nincluding b.xly\n[act]\n$ true\n' % ph
        files['a.xly'] = 'including common.xly\n'
        files['b.xly'] = 'including common.xly\n'
        files['common.xly'] = '# only a comment: may be included twice\n'
        expect = 'PASS'
    elif shape == 'missing':
        files['main.case'] = '[%s]\nincluding a.xly\n' % ph
        files['a.xly'] = 'including does-not-exist.xly\n'
        expect = 'FILE_ACCESS_ERROR'
    elif shape == 'include_symlink_loop':
        files['main.case'] = '[%s]\nincluding lib/loop.xly\n' % ph
        files['lib/loop.xly'] = ('symlink', 'loop.xly')
        expect = 'FILE_ACCESS_ERROR'
    elif shape == 'include_symlink_loop2':
        files['main.case'] = '[%s]\nincluding a.xly\n' % ph
        files['a.xly'] = ('symlink', 'b.xly')
        files['b.xly'] = ('symlink', 'a.xly')
        expect = 'FILE_ACCESS_ERROR'
    elif shape == 'include_dangling_link':
        files['main.case'] = '[%s]\nincluding a.xly\n' % ph
        files['a.xly'] = ('symlink', 'nowhere.xly')
        expect = 'FILE_ACCESS_ERROR'
    elif shape == 'include_dir':
        files['main.case'] = '[%s]\nincluding adir\n' % ph
        files['adir/x'] = ''
        expect = 'FILE_ACCESS_ERROR'
    elif shape == 'unknown_phase':
        # what follows the unknown header would be valid in the preceding phase: ignoring the header would PASS
        files['main.case'] = '[%s]\n%s\n[no-such-phase]\n%s\n[act]\n$ true\n' % (ph, inst % 'a', inst % 'b')
        expect = 'SYNTAX_ERROR'
    elif shape == 'unknown_phase_in_included':
        files['main.case'] = '[%s]\nincluding a.xly\n[act]\n$ true\n' % ph
        files['a.xly'] = '%s\n[no-such-phase]\n%s\n' % (inst % 'a', inst % 'b')
        expect = 'SYNTAX_ERROR'
    elif shape == 'unknown_phase_then_valid_header':
        files['main.case'] = '[act]\n$ true\n[no-such-phase]\n[%s]\n%s\n' % (ph, inst % 'a')
        expect = 'SYNTAX_ERROR'
    elif shape == 'unknown_phase_first_line':
        files['main.case'] = '[no-such-phase]\n[act]\n$ true\n[%s]\n%s\n' % (ph, inst % 'a')
        expect = 'SYNTAX_ERROR'
    elif shape == 'unknown_phase_last_line':
        files['main.case'] = '[act]\n$ true\n[%s]\n%s\n[no-such-phase]\n' % (ph, inst % 'a')
        expect = 'SYNTAX_ERROR'
    elif shape == 'same_file_twice_different_phases':
        # not a cycle: the same header-less file included from two phases
        other = 'cleanup' if ph != 'cleanup' else 'setup'
        files['main.case'] = '[%s]\nincluding c.xly\n[%s]\nincluding c.xly\n[act]\n$ true\n' % (ph, other)
        files['c.xly'] = '# a comment only\n\n'
        expect = 'PASS'
    d = ses.new_case_dir()
    root = os.path.join(d, 'root')
    driver.write_files(root, files)
    r = ses.run(['main.case'], cwd=root, mode='normal', watchdog_s=30)
    ctx.count('c07.defect_reports_checked')
    viol = []
    inconc = []
    if r.timed_out:
        viol.append({'what': 'C07 inclusion shape %s in [%s]: Exactly did not terminate within 30 s (looping on a '
                             'cyclic inclusion?)' % (shape, ph), 'detail': {'files': files}})
    elif r.exc is not None:
        viol.append({'what': 'C07 shape %s: exception escaped: %s' % (shape, r.exc[-300:]), 'detail': {'files': files}})
    else:
        ident = r.out.strip()
        if ident != expect:
            viol.append({'what': 'C07 inclusion/phase shape %s in [%s]: outcome %s (exit %r), expected %s' %
                                 (shape, ph, ident, r.rc, expect), 'detail': {'files': files, 'stderr': r.err[:800]}})
        elif expect != 'PASS':
            if r.rc != 65:
                viol.append({'what': 'C07 shape %s: exit code %r, expected 65' % (shape, r.rc), 'detail': {}})
            if not re.search(r'(?m)^main\.case, line \d+$', r.err) and 'no-such-phase' not in r.err:
                viol.append({'what': 'C07 shape %s: report does not locate the error (no "main.case, line N")' % shape,
                             'detail': {'stderr': r.err[:800]}})
            if r.new_tmp_entries:
                viol.append({'what': 'C07 shape %s: a sandbox was created' % shape, 'detail': {}})
            if chain is not None:
                got_chain = [(m.group(1), int(m.group(2))) for m in re.finditer(r'(?m)^(\S+), line (\d+)$', r.err)]
                ctx.count('c07.cycle_chains_checked')
                if got_chain != chain:
                    viol.append({'what': 'C07 shape %s in [%s]: the cyclic inclusion is located at %r, the files include '
                                         'one another along %r (every directive once)' % (shape, ph, got_chain, chain),
                                 'detail': {'files': files, 'stderr': r.err[:800]}})
    for m in _take_m6():
        viol.append({'what': 'C07 ' + m, 'detail': {'files': files}})
    ses.clean_tmp()
    ses.drop(d)
    return {'classes': [('graph', shape, ph)], 'viol': viol, 'inconclusive': inconc}


def run_chainloc(case, ctx):
    """root -> f1 -> f2 -> ... -> fN (each `including DIR/fK.xly`, DIR possibly empty or `../`), an unknown instruction in
    the deepest file: the report must name every including file and the defective one with the path that leads to it
    from the directory Exactly was started in, and the right line numbers."""
    from vf import driver
    ses = ctx.get_session()
    d = ses.new_case_dir()
    base = os.path.join(d, 'w', 'x', 'y')  # room for `../`
    root_rel = 'cases/main.case' if case['root_form'] == 'in-dir' else 'main.case'
    files = {}
    cur_dir = os.path.dirname(root_rel)
    chain = []  # (shown path, line, text)
    shown = root_rel
    names = ['f%d.xly' % (k + 1) for k in range(len(case['dirs']))]
    # root: two lines before the directive
    content = {root_rel: ['[%s]' % case['phase'], '# comment', 'including %s%s' % (case['dirs'][0], names[0])]}
    chain.append((root_rel, 3, 'including %s%s' % (case['dirs'][0], names[0])))
    for k, (dr, nm) in enumerate(zip(case['dirs'], names)):
        path = os.path.normpath(os.path.join(cur_dir, dr, nm))
        cur_dir = os.path.dirname(path)
        if k + 1 < len(names):
            lines = [''] * k + ['# c'] + ['including %s%s' % (case['dirs'][k + 1], names[k + 1])]
            chain.append((path, k + 2, lines[-1]))
        else:
            lines = ['', '# c'] + [''] * k + ['no-such-instruction-c07 some arguments']
            defect = (path, k + 3)
        content[path] = lines
    for pth, lines in content.items():
        files[os.path.join('w/x/y', pth)] = '\n'.join(lines) + '\n'
    if any(os.path.normpath(os.path.join('w/x/y', p_)).startswith('..') for p_ in content):
        ses.drop(d)
        return {'classes': [], 'viol': [], 'evaluations': 0}
    if not content[root_rel][0].startswith('[act]'):
        files[os.path.join('w/x/y', root_rel)] += '[act]\n$ true\n'
    driver.write_files(d, files)
    r = ses.run([root_rel], cwd=base, mode='normal')
    ctx.count('c07.defect_reports_checked')
    viol, inconc = [], []
    if r.timed_out:
        inconc.append('watchdog')
    elif r.exc is not None:
        viol.append({'what': 'C07 exception escaped: ' + r.exc[-200:], 'detail': {'files': files}})
    elif r.rc != 65 or r.out != 'SYNTAX_ERROR\n':
        viol.append({'what': 'C07 chain of %d inclusions with an unknown instruction in the deepest file: outcome %r/%r' %
                             (len(names), r.out.strip(), r.rc), 'detail': {'files': files, 'stderr': r.err[:600]}})
    else:
        err = r.err
        pos = 0
        problems = []
        for (f, ln, text) in chain:
            m = re.search(r'(?m)^%s, line %d$' % (re.escape(f), ln), err[pos:])
            if not m:
                problems.append('including file "%s, line %d" not named (in order)' % (f, ln))
                continue
            pos += m.end()
            if text not in err[pos:pos + len(text) + 10]:
                problems.append('text of the including directive %r not shown after its location' % text)
        m = re.search(r'(?m)^%s, line %d$' % (re.escape(defect[0]), defect[1]), err[pos:])
        if not m:
            problems.append('location "%s, line %d" of the defective element not reported' % defect)
        if 'no-such-instruction-c07 some arguments' not in err:
            problems.append('source text of the defective element not shown')
        if problems:
            viol.append({'what': 'C07 report for a defect at %s line %d reached through %r (root given as %s): %s' %
                                 (defect[0], defect[1], [c[0] for c in chain], root_rel, '; '.join(problems)),
                         'detail': {'files': files, 'stderr': err[:1500]}})
    for m_ in _take_m6():
        viol.append({'what': 'C07 ' + m_, 'detail': {'files': files}})
    ses.clean_tmp()
    ses.drop(d)
    res = {'classes': [('chainloc', len(names), case['root_form'], tuple(bool(x) for x in case['dirs']))], 'viol': viol,
           'inconclusive': inconc}
    if len(names) == 3 and case['root_form'] == 'in-dir' and case['dirs'] == ['d/', 'd/e/', '']:
        res['sample'] = {'files': files, 'expected_chain': chain, 'expected_defect_location': defect,
                         'stderr': r.err[:600]}
    return res


def run_case(case, ctx):
    k = case['kind']
    if k == 'chainloc':
        return run_chainloc(case, ctx)
    if k == 'parse':
        return run_parse(case, ctx)
    if k == 'perm':
        return run_perm(case, ctx)
    if k == 'defect':
        return run_defect(case, ctx)
    if k == 'actmerge':
        return run_actmerge(case, ctx)
    return run_graph(case, ctx)
