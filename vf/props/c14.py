"""C14 A text has one value however it is consumed.
M4 (text-source shadow) runs inside real CLI runs; metamorphic families of assertions that must agree
(M, identity-wrapped M, ( M && M ), permutations of conjuncts reading through different accessors, every kind of
expected-text source for `equals`) under several mem_buff_size values."""
import itertools
import os

from vf import common, probe

ID = 'C14'
LEVEL = 'exploration'
RULE = ('one case = one text x actual-source kind x transformer wrapper x mem_buff_size, executed as a real test case '
        'holding ~25 assertions grouped in families whose members must agree (emitted in the polarity a \\n-based '
        'reference predicts, so the whole case must PASS; otherwise every assertion is re-run singly and a family with '
        'mixed verdicts is a violation); M4 compares every observation of every text source inside these runs. '
        'evaluations = assertions evaluated; class key = (text class, source kind, wrapper, mem size class, family); '
        'non-trivial = the family was evaluated and M4 made >=1 comparison in the run')
ASSUMPTIONS = ['texts are valid UTF-8; literal/here-document kinds are used only for texts a case file can carry '
               '(no CR, since the case file itself is read with universal newlines)',
               'a family whose members all disagree with the \\n-based reference in the same way is counted '
               '(c14.consistent_reference_mismatch) but is not a C14 violation',
               'wrappers are transformers that denote the identity on the generated texts']
EXHAUSTIVE_NOTE = 'core: fixed corpus of 40 texts x 3 source kinds x 4 wrappers x buffer sizes {1,2,3,len-1,len,len+1,8192}'
MIN_OBS = {'quick': {'evaluations': 12000, 'm4.comparisons': 15000, 'm4.as_file': 1000, 'm4.as_str': 5000,
                     'm4.as_lines_complete': 5000, 'm4.write_to': 1000, 'm4.sources_with_2plus_accessors': 2000,
                     'm4.sources_observed_before_and_after_freeze': 200, 'c14.families_checked': 3000},
           'thorough': {'evaluations': 200000, 'm4.comparisons': 200000, 'm4.as_file': 10000, 'm4.as_str': 50000,
                        'm4.as_lines_complete': 50000, 'm4.write_to': 10000,
                        'm4.sources_with_2plus_accessors': 20000, 'c14.families_checked': 50000}}

CTRL = ['\r', '\r\n', '\f', '\v', '\x1c', '\x1d', '\x1e', '\x85', ' ', ' ', '\t']
PLAIN_TEXTS = ['', 'a', 'a\n', 'a\nb', 'a\nb\n', '\n', '\n\n', 'a\n\nb\n', ' a \n', 'ab\nab\nab\n', 'b\na\n',
               'ab\n' * 40, 'line é %d\n' * 12 % tuple(range(12)), 'x' * 99 + '\n' + 'y\n', 'a' * 101]
WRAPS = [[], ['identity'], ['filter constant true'], ['char-case -to-lower', 'replace z z'], ['identity', 'identity'],
         ['strip -trailing-space', 'identity']]
AKINDS = ['file', 'stdout', 'prog']


def _core_texts():
    ts = list(PLAIN_TEXTS)
    for c in CTRL:
        ts.append('a' + c + 'b\n')
        ts.append('a' + c + 'b' + c + 'a\nb\n')
        ts.append(c + 'a')
    return ts


def text_class(t):
    ks = []
    for name, ch in (('cr', '\r'), ('ff', '\f'), ('vt', '\v'), ('fs', '\x1c'), ('nel', '\x85'), ('ls', ' '),
                     ('ps', ' '), ('gs', '\x1d'), ('rs', '\x1e')):
        if ch in t:
            ks.append(name)
    return ('empty' if not t else 'nl' if t.endswith('\n') else 'nonl') + '+' + ','.join(ks)


def _mems(n):
    return sorted({1, 2, 3, max(1, n - 1), max(1, n), n + 1, 8192})


_SPECIAL_FILES = ['/proc/version', '/proc/self/comm', '/proc/sys/kernel/ostype']


def run_special_file(case, ctx):
    """A file whose size, as reported by the file system, is 0 although reading it gives characters (procfs): the text is
    what reading gives, whichever way it is consumed."""
    ses = ctx.get_session()
    path = case['path']
    viol, inconc = [], []
    try:
        with open(path) as f:
            t = f.read()
    except OSError:
        return {'classes': [], 'viol': [], 'inconclusive': [], 'evaluations': 0}
    if not t or os.stat(path).st_size != 0:
        return {'classes': [], 'viol': [], 'inconclusive': [], 'evaluations': 0}
    K = len(ref_lines(t))
    members = ['! is-empty', 'matches .', '( matches . && matches . )', 'any line : contents matches .',
               'num-lines == %d' % K, '-transformed-by identity ( matches . && num-lines == %d )' % K,
               '-transformed-by ( replace ^ > ) matches ^>', '( num-lines == %d && matches . && ! is-empty )' % K,
               '-transformed-by char-case -to-upper ! is-empty']
    for mem in (1, 8192):
        for m in members:
            text = '[act]\n$ true\n[assert]\ncontents %s : %s\n' % (path, m)
            d = ses.new_case_dir({'t.case': text})
            r = ses.run([os.path.join(d, 't.case')], cwd=d, mode='normal', mem_buff_size=mem)
            ctx.count('c14.special_file_assertions')
            if r.timed_out:
                inconc.append('watchdog')
            elif r.exc is not None or (r.out.strip(), r.rc) != ('PASS', 0):
                viol.append({'what': 'C14 file %s (size reported as 0, %d characters when read): `contents %s : %s` gives %s/%r; '
                                     'the text read satisfies it' % (path, len(t), path, m, r.out.strip(), r.rc),
                             'detail': {'case_text': text, 'mechanism': 'special-file', 'observed': r.brief()}})
            ses.clean_tmp()
            ses.drop(d)
    return {'classes': [('special-file', path)], 'viol': viol, 'inconclusive': inconc, 'evaluations': 2 * len(members)}


def cases(tier, seed):
    for p in _SPECIAL_FILES:
        yield {'kind': 'special-file', 'path': p}
    texts = _core_texts()
    i = 0
    for t in texts:
        for ak in AKINDS:
            for w in (WRAPS[:3] if tier == 'quick' else WRAPS[:4]):
                mems = _mems(len(t.encode()))
                if tier == 'quick':
                    # quick: the complete buffer-size sweep for the un-wrapped file source, one small size (rotating)
                    # for the other combinations; thorough sweeps all sizes everywhere
                    mems = mems if (not w and ak == 'file') else [mems[i % len(mems)]]
                    i += 1
                for m in mems:
                    i += 1
                    if 'strip' in ' '.join(w) and t != t.rstrip():
                        continue
                    yield {'text': t, 'akind': ak, 'wrap': w, 'mem': m}
    # ---- a cached text that outgrows the memory buffer while it is written piecewise, with a multi-byte character
    # before the point where it moves to disk (every source kind, several chunking wrappers, buffer sizes below the size)
    for t in ('é\nb\n', 'aé\nbb\ncc\n', 'a\u2028b\nc\n', 'ü' * 5 + '\n' + 'x\n' * 5, 'ab\n' * 3 + 'é\n' + 'cd\n' * 3,
              'line é %d\n' * 30 % tuple(range(30))):
        n = len(t.encode())
        for ak in AKINDS:
            for w in (['filter constant true'], ['filter -line-nums 1:'], ['identity', 'filter constant true'],
                      ['replace z z']):
                for m in sorted({1, 2, 3, 4, 7, max(1, n // 2), max(1, n - 1)}):
                    yield {'text': t, 'akind': ak, 'wrap': w, 'mem': m}
    # ---- texts longer than every internal chunk size (io.DEFAULT_BUFFER_SIZE 8192, 2**16): every accessor gives the
    # whole text
    for t in ('ab\n' * 25000, 'x' * 70000 + '\nlast a\n', ('line %d é\n' * 9000) % tuple(range(9000))):
        for ak in ('file', 'prog', 'stdout'):
            for w, m in (([], 8192), (['filter constant true'], 8192), ([], 100), (['identity'], 200000)):
                yield {'text': t, 'akind': ak, 'wrap': w, 'mem': m}
    # ---- borrowed workloads: the cases of C05 (matchers/transformers over many source kinds) and C10 (programs, stdin
    # built from several parts, program output as text source) are executed here with M4 switched on and a small
    # memory buffer; only M4 decides (the borrowed checks' own oracles are ignored in this check)
    from vf.props import c05 as _c05, c10 as _c10
    step5 = 12 if tier == 'quick' else 2
    step10 = 10 if tier == 'quick' else 2
    for k, c in enumerate(_c05.cases(tier, seed)):
        if k % step5 == 0:
            yield {'kind': 'borrow', 'from': 'c05', 'case': c, 'mem': (1, 7, 64, 8192)[(k // step5) % 4]}
    for k, c in enumerate(_c10.cases(tier, seed)):
        if k % step10 == 0:
            yield {'kind': 'borrow', 'from': 'c10', 'case': c, 'mem': (1, 5, 33, 8192)[(k // step10) % 4]}
    rng = common.rng_for(seed, ID)
    n_rand = 150 if tier == 'quick' else 12000
    for _ in range(n_rand):
        n = rng.choice((1, 2, 3, 4, 5, 6, 8, 8, 12, 40, 200))
        # one or two kinds of control character per text (so that a text with CR, which costs a bisection because of
        # the known finding S6, is not the common case)
        ctl = rng.sample(CTRL, rng.choice((1, 1, 2)))
        alphabet = ['a', 'a', 'b', '\n', '\n', ' ', 'é'] + ctl + ctl
        t = ''.join(rng.choice(alphabet) for _ in range(n))
        w = rng.choice(WRAPS)
        if any('strip' in x for x in w) and t != t.rstrip():
            w = []
        ln = len(t.encode())
        m = rng.choice([1, 2, 3, max(1, ln - 1), max(1, ln), ln + 1, 8192, rng.randrange(1, 64)])
        yield {'text': t, 'akind': rng.choice(AKINDS), 'wrap': w, 'mem': m}


# ---------------------------------------------------------------------------------------------------
def ref_lines(t):
    parts = t.split('\n')
    ret = [p for p in parts[:-1]]
    if parts[-1]:
        ret.append(parts[-1])
    return ret


def _literal_ok(t):
    return '\r' not in t and '\x85' not in t and ' ' not in t and ' ' not in t and '\x1c' not in t \
        and '\x1d' not in t and '\x1e' not in t and '\f' not in t and '\v' not in t


def _heredoc(t):
    """here-document denoting t, or None"""
    if not t.endswith('\n') or not _literal_ok(t):
        return None  # the case file itself cannot carry these characters reliably (outside C14)
    body = t[:-1].split('\n')
    if any(l == 'EOF' for l in body):
        return None
    # characters that str.splitlines treats as line boundaries would break the *case file's* own line structure
    # only if the parser splits source at them; the document reader splits at \n (file iteration) -- kept.
    return '<<EOF\n' + t + 'EOF'


def build(case, d):
    """-> (setup_lines, act_line, [(family, polarity_is_positive, assertion_text)], files)"""
    t = case['text']
    tb = t.encode('utf-8')
    hexs = tb.hex()
    files = {'t.txt': tb, 'e.txt': tb,
             'cnt.sh': ('exe', '#!/bin/sh\n[ "$(wc -l)" -eq "$1" ]\n'),
             'cat.sh': ('exe', '#!/bin/sh\ncat\n')}
    pr = probe.PROBE
    ak = case['akind']
    # the program that prints the text: the probe told by a hex argument; for texts too long for one argument, cat
    EMIT = ('% ' + pr + ' - ' + (('out=' + hexs) if hexs else 'rc=0')) if len(hexs) < 60000 else \
        '% cat -existing-file -rel-home t.txt'
    if ak == 'file':
        subj = 'contents t.txt : '
        nl = ''
    elif ak == 'stdout':
        subj = 'stdout '
        nl = ''
    else:
        subj = 'stdout -from ' + EMIT + '\n    '
        nl = ''
    wrap = ''
    if case['wrap']:
        # (-line-nums ranges run to the end of the line: close the parenthesis on the next line)
        wrap = '-transformed-by ( ' + ' | '.join(case['wrap']) + ('\n ) ' if 'line-nums' in case['wrap'][-1] else ' ) ')

    lines = ref_lines(t)
    K = len(lines)
    cnt = t.count('\n')
    fam = []

    def add(family, truth, matcher):
        """matcher is a simple (parenthesised if needed) text-matcher that the reference says has value `truth`."""
        m = matcher if truth else '! ' + matcher
        fam.append((family, truth, subj + wrap + m))

    def variants(family, truth, M, simple=False):
        S = M if simple else '( ' + M + ' )'
        add(family, truth, S)
        add(family, truth, '-transformed-by identity ' + S)
        add(family, truth, '( %s && %s )' % (S, S))
        add(family, truth, '( %s || %s )' % (S, S))
        add(family, truth, '( constant true && %s )' % S)
        add(family, truth, '! ! ' + S)

    # --- family: number of lines (as_lines; and an external consumer reading the text as a file/stdin)
    variants('numlines', True, 'num-lines == %d' % K, simple=True)
    add('numlines', False, 'num-lines > %d' % K)
    add('numlines', True, '( num-lines == %d && num-lines == %d )' % (K, K))
    add('numlines-ext', True, '( run -rel-home cnt.sh %d )' % cnt)
    add('numlines-ext', True, '( ( run -rel-home cnt.sh %d ) && ( run -rel-home cnt.sh %d ) )' % (cnt, cnt))
    add('numlines-ext', True, '-transformed-by ( run -rel-home cat.sh ) ( run -rel-home cnt.sh %d )' % cnt)
    # --- family: equals, all kinds of expected text
    variants('equals-file', True, 'equals -contents-of -rel-act e.txt')
    add('equals-kinds', True, '( equals -contents-of -rel-act e.txt )')
    add('equals-kinds', True, '( equals -contents-of -rel-act e.txt -transformed-by identity )')
    add('equals-kinds', True, '( equals -stdout-from ' + EMIT + '\n )')
    add('equals-kinds', True, '( equals -contents-of -rel-act e.txt -transformed-by run -rel-home cat.sh\n )')
    hd = _heredoc(t)
    if hd is not None:
        add('equals-kinds', True, '( equals ' + hd + '\n )')
    # --- family: equals against a DIFFERENT text (one more line; last line dropped), every kind of expected source
    longer = t + ('' if (t.endswith('\n') or not t) else '\n') + 'extra\n'
    files['longer.txt'] = longer.encode('utf-8')
    lhex = longer.encode('utf-8').hex()
    add('equals-neg', False, '( equals -contents-of -rel-act longer.txt )')
    add('equals-neg', False, '( equals -contents-of -rel-act longer.txt -transformed-by identity )')
    if len(lhex) < 60000:
        add('equals-neg', False, '( equals -stdout-from % ' + pr + ' - out=' + lhex + '\n )')
    add('equals-neg', False, '( ( equals -contents-of -rel-act longer.txt ) || ( equals -contents-of -rel-act longer.txt ) )')
    hd2 = _heredoc(longer)
    if hd2 is not None:
        add('equals-neg', False, '( equals ' + hd2 + '\n )')
        add('equals-neg', False, '( constant false || equals ' + hd2 + '\n )')
    if K >= 2:
        shorter = ''.join(l + '\n' for l in lines[:-1])
        files['shorter.txt'] = shorter.encode('utf-8')
        add('equals-neg2', False, '( equals -contents-of -rel-act shorter.txt )')
        add('equals-neg2', False, '( equals -contents-of -rel-act shorter.txt -transformed-by identity )')
        if len(shorter) < 30000:
            add('equals-neg2', False, '( equals -stdout-from % ' + pr + ' - out=' + shorter.encode('utf-8').hex() + '\n )')
        hd3 = _heredoc(shorter)
        if hd3 is not None:
            add('equals-neg2', False, '( equals ' + hd3 + '\n )')
    # --- families: the same transformer applied to the actual text and to an expected text of every kind of source
    # (transformers that read the lines of their source in several passes: strip, several / negative line ranges);
    # the two sides are the same text, so every member must hold.  Not for texts with CR (S6: the kinds of source
    # legitimately disagree there).
    if '\r' not in t:
        pgm = EMIT
        for name, T in (('strip', 'strip'), ('strip-nl', 'strip -trailing-new-lines'),
                        ('ln-multi', 'filter -line-nums 1 -2:'), ('ln-neg', 'filter -line-nums -1 1'),
                        ('ln-rev', 'filter -line-nums 2: 1')):
            lhs = '-transformed-by ( %s\n ) ' % T
            rhs = '\n -transformed-by ( %s\n )' % T
            fname = 'same-tr-' + name
            add(fname, True, '( ' + lhs + 'equals -contents-of -rel-act e.txt' + rhs + ' )')
            add(fname, True, '( ' + lhs + 'equals -stdout-from ' + pgm + rhs + ' )')
            add(fname, True, '( ' + lhs + 'equals -stdout-from ' + pgm + '\n -transformed-by ( identity | %s\n ) )' % T)
            add(fname, True, '( ' + lhs + '( equals -stdout-from ' + pgm + rhs + ' && equals -stdout-from ' + pgm + rhs
                + ' ) )')
            if hd is not None:
                add(fname, True, '( ' + lhs + 'equals ' + hd + rhs + ' )')
    # --- family: equals against a DIFFERENT text of the SAME SIZE, both operands files of the home directory that carry
    # the same modification time (set by the harness): whatever way the two files are compared, it is their contents
    # that count
    pos = [k for k, ch in enumerate(t) if ch.isascii() and ch.isalnum()]
    if pos:
        k = pos[-1]
        same = t[:k] + ('b' if t[k] != 'b' else 'a') + t[k + 1:]
        files['same.txt'] = same.encode('utf-8')
        hsubj = 'contents -rel-home t.txt : '
        fam.append(('equals-neg-samesize', False, hsubj + '! equals -contents-of -rel-home same.txt'))
        fam.append(('equals-neg-samesize', False, hsubj + '! ( equals -contents-of -rel-home same.txt -transformed-by identity )'))
        fam.append(('equals-neg-samesize', False, hsubj + '-transformed-by identity ! equals -contents-of -rel-home same.txt'))
        fam.append(('equals-neg-samesize', False, hsubj + '( ! equals -contents-of -rel-home same.txt && '
                                                          '! equals -contents-of -rel-home same.txt )'))
        fam.append(('equals-neg-samesize', False, 'contents -rel-home same.txt : ! equals -contents-of -rel-home t.txt'))
        hd4 = _heredoc(same)
        if hd4 is not None:
            fam.append(('equals-neg-samesize', False, hsubj + '! equals ' + hd4))
    # --- family: a text made of two parts - the stdin a program defines for itself, followed by the text it is given
    # to transform - where the second part comes from a file, from a program (written by a sub process straight to the
    # file descriptor) and from the subject itself: the parts keep their order whatever wrote them
    # (not for texts with CR: S6, the kinds of source legitimately disagree there)
    if '\r' not in t:
        files['pre.txt'] = b'pre line\n'
        files['prepended.txt'] = b'pre line\n' + tb
        TR = '-transformed-by ( run -rel-home cat.sh\n -stdin -contents-of -rel-home pre.txt\n ) '
        EXP = 'equals -contents-of -rel-home prepended.txt'
        add('concat-stdin', True, '( ' + TR + EXP + ' )')
        add('concat-stdin', True, '( ' + TR + '( ' + EXP + ' && ' + EXP + ' ) )')
        fam.append(('concat-stdin', True, 'contents -rel-home t.txt : ' + TR + EXP))
        fam.append(('concat-stdin', True, 'stdout -from ' + EMIT + '\n ' + TR + EXP))
        fam.append(('concat-stdin', True, 'stdout -from ' + EMIT + '\n -transformed-by identity\n ' + TR + EXP))
        # ... and with the two-part text as the EXPECTED operand (a text source: output of a program + transformation)
        fam.append(('concat-stdin', True, 'contents -rel-home prepended.txt : equals -stdout-from ' + EMIT + '\n ' +
                    TR.rstrip()))
        fam.append(('concat-stdin', True, 'contents -rel-home prepended.txt : equals -stdout-from ' + EMIT +
                    '\n -transformed-by ( run -rel-home cat.sh\n -stdin <<EOF\npre line\nEOF\n )'))
        fam.append(('concat-stdin', True, 'contents -rel-home prepended.txt : ( equals -stdout-from ' + EMIT + '\n ' +
                    TR.rstrip() + ' && ! is-empty )'))
    # --- family: `identity` inside a chain around a transformer that DOES change the text (a -> A), in the places that
    # take a short cut for identity transformations (output of a program, `run` transformer, nested sequences), on the
    # actual and on the expected side
    if '\r' not in t:
        files['repl.txt'] = t.replace('a', 'A').encode('utf-8')
        TRA = 'replace a A'
        EXPA = 'equals -contents-of -rel-home repl.txt'
        for chain in (TRA, '( identity | %s )' % TRA, '( %s | identity )' % TRA, '( ( identity | %s ) | identity )' % TRA,
                      '( identity | identity | %s )' % TRA, '( identity | ( %s | identity ) )' % TRA):
            fam.append(('identity-in-chain', True, subj + '-transformed-by ' + chain + ' ' + EXPA))
            fam.append(('identity-in-chain', True, 'contents -rel-home repl.txt : equals -stdout-from ' + EMIT +
                        '\n -transformed-by ' + chain))
            fam.append(('identity-in-chain', True, subj + '-transformed-by ( run -rel-home cat.sh\n | ' + chain + ' ) ' +
                        EXPA))
            fam.append(('identity-in-chain', True, subj + '-transformed-by ' + chain + ' ( ' + EXPA + ' && ' + EXPA + ' )'))
    # --- family: the text written on STDERR by a program (exit code relevant / ignored), as expected operand
    if len(hexs) < 60000 and hexs and '\r' not in t:  # (CR: S6, the kinds of source legitimately disagree)
        SE = '% ' + pr + ' - err=' + hexs
        add('equals-stderr', True, '( equals -stderr-from ' + SE + '\n )')
        add('equals-stderr', True, '( equals -stderr-from -ignore-exit-code ' + SE + '\n )')
        add('equals-stderr', True, '( ( equals -stderr-from ' + SE + '\n ) && ( equals -stderr-from ' + SE + '\n ) )')
        add('equals-stderr', True, '( equals -stderr-from ' + SE + '\n -transformed-by identity )')
        add('equals-stderr', False, '( equals -stderr-from % ' + pr + ' - err=' + lhex + '\n )')
    # --- family: whole-string consumer
    has_a = 'a' in t
    variants('matches', has_a, 'matches a', simple=False)
    # --- family: line contents
    for X in ('a', 'b'):
        truth = any(l == X for l in lines)
        variants('anyline-' + X, truth, 'any line : contents matches -full ' + X)
    # --- family: permutations of conjuncts that read through different accessors
    p_str = '( matches a )' if has_a else '! ( matches a )'
    p_lines = '( num-lines == %d )' % K
    p_file = '( equals -contents-of -rel-act e.txt )'
    p_ext = '( run -rel-home cnt.sh %d )' % cnt
    for perm in itertools.permutations([p_str, p_lines, p_file]):
        add('perm', True, '( ' + ' && '.join(perm) + ' )')
    for perm in itertools.permutations([p_lines, p_ext, p_str]):
        add('perm-ext', True, '( ' + ' && '.join(perm) + ' )')
    setup = ['copy t.txt', 'copy e.txt', 'copy longer.txt'] + (['copy shorter.txt'] if 'shorter.txt' in files else [])
    act = EMIT
    return setup, act, fam, files


def _case_text(setup, act, assertions):
    return '[setup]\n' + '\n'.join(setup) + '\n[act]\n' + act + '\n[assert]\n' + '\n'.join(assertions) + '\n'


def setup_worker(ctx):
    from vf import m4
    ses = ctx.get_session()
    ses.main_program()
    # every fourth shard runs WITHOUT the M4 wrappers: there only the behavioural oracles decide (families of
    # assertions that must agree; outcome of a borrowed case under a small buffer vs. the default size).  A monitor
    # that wraps the program's objects can change which code runs (it did, twice); these shards cannot be affected.
    ctx.c14_no_m4 = (ctx.shard % 4 == 3)
    if not ctx.c14_no_m4:
        m4.install()
    from vf.props import c05 as _c05, c10 as _c10
    for mod in (_c05, _c10):
        if hasattr(mod, 'setup_worker'):
            mod.setup_worker(ctx)


def teardown_worker(ctx):
    from vf import m4
    return {'m4.' + k: v for k, v in m4.COUNT.items()}


def run_borrowed(case, ctx):
    from vf import m4
    import importlib
    ses = ctx.get_session()
    mod = importlib.import_module('vf.props.' + case['from'])
    m4.reset()
    # M4 state is reset per case here; the borrowed run_case may execute several runs: collect over all of them
    collected = []
    orig_reset = m4.reset

    def keep_and_reset():
        collected.extend(m4.VIOLATIONS)
        orig_reset()

    cmp0 = m4.COUNT['comparisons']
    ses.default_mem_buff_size = case['mem']
    try:
        try:
            r = mod.run_case(case['case'], ctx)
        finally:
            ses.default_mem_buff_size = None
    except Exception as ex:
        m4.reset()
        return {'classes': [], 'viol': [], 'inconclusive': ['borrowed %s case raised %r' % (case['from'], ex)]}
    collected.extend(m4.VIOLATIONS)
    m4.reset()
    ctx.count('c14.borrowed_cases_run')
    ctx.count('c14.borrowed_m4_comparisons', m4.COUNT['comparisons'] - cmp0)
    viol = []
    if r.get('viol') and case['mem'] != 8192:
        # the borrowed check's own oracle disagrees under a small memory buffer: does it agree with the default size?
        # (a verdict / output that depends on mem_buff_size is a C14 violation; anything else is that check's business)
        try:
            r2 = mod.run_case(case['case'], ctx)
        except Exception:
            r2 = None
        m4.reset()
        ctx.count('c14.borrowed_buffer_size_rechecks')
        if r2 is not None and not r2.get('viol'):
            viol.append({'what': 'C14 (workload of %s) outcome depends on the memory buffer size: with mem_buff_size=%d: %s; '
                                 'with the default size the case behaves as its reference says' %
                                 (case['from'].upper(), case['mem'], r['viol'][0].get('what', '')[:300]),
                         'detail': {'mechanism': 'mem-buff-size-dependence', 'borrowed_from': case['from'],
                                    'mem': case['mem'], 'first_violation': common.jsonable(r['viol'][0])}})
    seen = set()
    for v in collected:
        key = (v['detail'].get('mechanism'), v['detail'].get('cls'), v['detail'].get('first'), v['detail'].get('second'))
        if key in seen:
            continue
        seen.add(key)
        dd = dict(v['detail'])
        dd.update({'m4': True, 'input_text': dd.get('text') or dd.get('v1') or '', 'borrowed_from': case['from'],
                   'mem': case['mem']})
        viol.append({'what': 'C14 (workload of %s, mem %d) %s' % (case['from'].upper(), case['mem'], v['what']),
                     'detail': dd})
    return {'classes': [('borrow', case['from'], case['mem'], 'm4-compared' if m4.COUNT['comparisons'] > cmp0 else
                         'no-comparison')], 'viol': viol, 'inconclusive': [],
            'evaluations': max(1, r.get('evaluations', 1))}


def run_case(case, ctx):
    if case.get('kind') == 'borrow':
        return run_borrowed(case, ctx)
    if case.get('kind') == 'special-file':
        return run_special_file(case, ctx)
    from vf import m4
    ses = ctx.get_session()
    d = ses.new_case_dir()
    setup, act, fam, files = build(case, d)
    from vf import driver
    text = _case_text(setup, act, [a for (_, _, a) in fam])
    files['t.case'] = text
    driver.write_files(d, files)
    if 'same.txt' in files:
        for n in ('t.txt', 'same.txt'):
            os.utime(os.path.join(d, n), (1600000000, 1600000000))
    viol = []
    inconc = []
    classes = []
    m4.reset()
    cmp0 = m4.COUNT['comparisons']
    r = ses.run([os.path.join(d, 't.case')], cwd=d, mode='normal', mem_buff_size=case['mem'])
    m4v = list(m4.VIOLATIONS)
    nev = len(fam)
    tcls = text_class(case['text'])
    memc = 'mem<=len' if case['mem'] <= max(1, len(case['text'].encode())) else 'mem>len'
    wr = '|'.join(case['wrap']) or '-'
    verdicts = None
    if r.timed_out:
        inconc.append('watchdog')
    elif r.exc is not None:
        viol.append({'what': 'C14 exception escaped: ' + r.exc[-300:], 'detail': {'case_text': text}})
    elif r.rc == 0 and r.out == 'PASS\n':
        verdicts = {i: 'PASS' for i in range(len(fam))}
    else:
        # bisect: first one run per family, then every assertion of a failing family singly
        verdicts = {}
        by_family = {}
        for i, (family, truth, a) in enumerate(fam):
            by_family.setdefault(family, []).append(i)

        def run_subset(idxs):
            with open(os.path.join(d, 'single.case'), 'w') as f:
                f.write(_case_text(setup, act, [fam[i][2] for i in idxs]))
            m4.reset()
            r1 = ses.run([os.path.join(d, 'single.case')], cwd=d, mode='normal', mem_buff_size=case['mem'])
            m4v.extend(m4.VIOLATIONS)
            if r1.timed_out:
                return 'TIMEOUT'
            return r1.out.strip() or ('rc=%r' % r1.rc)

        for family, idxs in by_family.items():
            nev += len(idxs)
            if run_subset(idxs) == 'PASS':
                for i in idxs:
                    verdicts[i] = 'PASS'
            else:
                for i in idxs:
                    nev += 1
                    verdicts[i] = run_subset([i])
    if verdicts is not None:
        groups = {}
        for i, (family, truth, a) in enumerate(fam):
            groups.setdefault(family, []).append(i)
        for family, idxs in groups.items():
            ctx.count('c14.families_checked')
            vs = {verdicts[i] for i in idxs}
            if 'TIMEOUT' in vs:
                inconc.append('watchdog in family ' + family)
                continue
            bad_kinds = vs - {'PASS', 'FAIL'}
            if bad_kinds:
                viol.append({'what': 'C14 family %s on text %r (%s, wrap %s, mem %d): outcome %s instead of a verdict'
                                     % (family, case['text'][:40], case['akind'], wr, case['mem'], sorted(bad_kinds)),
                             'detail': {'family': family, 'mechanism': 'non-verdict',
                                        'assertions': [(fam[i][2], verdicts[i]) for i in idxs]}})
            elif len(vs) > 1:
                viol.append({'what': 'C14 family %s on text %r (%s, wrap %s, mem %d): members that must agree do not: %s'
                                     % (family, case['text'][:40], case['akind'], wr, case['mem'],
                                        [(fam[i][2].replace('\n', ' ')[-70:], verdicts[i]) for i in idxs
                                         if verdicts[i] != 'PASS'][:3]),
                             'detail': {'family': family, 'mechanism': 'family-disagreement', 'text': case['text'],
                                        'akind': case['akind'], 'wrap': case['wrap'], 'mem': case['mem'],
                                        'assertions': [(fam[i][2], verdicts[i]) for i in idxs]}})
            elif vs == {'FAIL'}:
                ctx.count('c14.consistent_reference_mismatch')
            classes.append((tcls, case['akind'], wr, memc, family))
    seen = set()
    for v in m4v:
        key = (v['detail'].get('mechanism'), v['detail'].get('cls'), v['detail'].get('first'), v['detail'].get('second'))
        if key in seen:
            continue
        seen.add(key)
        dd = dict(v['detail'])
        dd.update({'m4': True, 'input_text': case['text'], 'akind': case['akind'], 'wrap': case['wrap'],
                   'mem': case['mem']})
        viol.append({'what': 'C14 ' + v['what'], 'detail': dd})
    if getattr(ctx, 'c14_no_m4', False):
        ctx.count('c14.cases_without_m4_wrappers')
    elif m4.COUNT['comparisons'] == cmp0 and verdicts is not None:
        inconc.append('M4 made no comparison in this run')
    m4.reset()
    ses.clean_tmp()
    ses.drop(d)
    res = {'classes': classes, 'viol': viol, 'inconclusive': inconc, 'evaluations': nev}
    if case['text'] == 'a\nb' and case['akind'] == 'prog' and case['wrap']:
        res['sample'] = {'case': case, 'case_text': text[:3000], 'verdict': r.out.strip()}
    return res


# --------------------------------------------------------------------------------------------------- known findings
_SPLITLINES_BREAKS = ['\r', '\f', '\v', '\x1c', '\x1d', '\x1e', '\x85', ' ', ' ']


def known_s5(v):
    """S5: texts held in memory are divided with str.splitlines, which also breaks at FF, VT, FS, GS, RS, NEL, LS, PS
    and lone CR; texts read from a file are divided at \\n only."""
    d = v.get('detail') or {}
    t = d.get('input_text') if d.get('m4') else d.get('text')
    if t is None:
        return False
    brk = [c for c in _SPLITLINES_BREAKS if c in t.replace('\r\n', '')]
    if not brk:
        return False
    if d.get('m4'):
        return d.get('mechanism') == 'line-division' and d.get('cls') in (
            'ContentsOfStr', '_StringSourceContentsOfConstStrAndExistingPath', '_FreezingStringSourceContents')
    if d.get('mechanism') == 'family-disagreement':
        return d.get('family') in ('numlines', 'anyline-a', 'anyline-b', 'perm', 'perm-ext')
    return False


def known_s6(v):
    """S6: a file with CR LF (or lone CR) line ends is read with universal-newline translation by Exactly's own
    accessors (as_lines/as_str give LF) while as_file consumers (filecmp for equals file-vs-file, external programs)
    see the raw bytes."""
    d = v.get('detail') or {}
    t = d.get('input_text') if d.get('m4') else d.get('text')
    if t is None or '\r' not in t:
        return False
    if d.get('m4'):
        if d.get('mechanism') != 'value':
            return False
        a, b = d.get('v1', ''), d.get('v2', '')
        norm = lambda s: s.replace('\r\n', '\n').replace('\r', '\n')
        return a != b and norm(a) == norm(b)
    if d.get('mechanism') == 'family-disagreement':
        return d.get('family') in ('equals-file', 'equals-kinds', 'numlines-ext', 'perm', 'perm-ext', 'numlines',
                                   'anyline-a', 'anyline-b', 'matches')
    return False


KNOWN = {'S5-splitlines-vs-newline': known_s5, 'S6-crlf-universal-newlines-vs-bytes': known_s6}
