"""C16 Suite run: every case once, verdict OK iff all succeed, reporters agree (D1, marker log, M1).

One case descriptor = one generated tree of suite files and case files.  The tree is run twice through the real
CLI (`exactly suite ROOT`, `exactly suite --reporter junit ROOT`); every case appends its id to a log file outside
the sandbox from its [setup] phase.  The reference enumeration / validity comes from vf/models/suite.py, which
works on the abstract description of the tree (own glob matcher), never on the implementation."""
import os
import posixpath
import re
from xml.etree import ElementTree

from vf import common
from vf.models import suite as model

ID = 'C16'
LEVEL = 'exploration'
RULE = ('case = one generated tree of suite files + case files (depth <= 3, <= 3 entries per section, entries plain / '
        '`*` / `?` / `**` / directory / `./` and `x/..` spellings / listed twice; <= 8 processed cases with verdict '
        'classes drawn from the 11 classes), run with the progress AND the junit reporter (2 evaluations). '
        'Core (seed independent): every verdict class variant x {alone, first, middle, last among passing cases, '
        'alone in a sub-suite} + every invalid-suite class (double inclusion by spelling / glob / symlink / diamond '
        '/ cycle, missing case / suite / default suite file, 5 syntax-error kinds at 3 depths) + fixed ordering '
        'trees + valid controls; seeded: random trees, a quarter with an injected defect. '
        'Class keys: (valid, reporter, depth, #suites, #cases, entry forms, final outcome), '
        '(case, verdict class, variant, reporter, what the reporter showed), (invalid, model reason, depth of the '
        'defective file, reporter, exit code).  A run is non-trivial when the CLI returned and its output was '
        'compared with the reference enumeration (valid) or with "exit 3, nothing executed" (invalid).')
ASSUMPTIONS = [
    'file names without leading dot, lower-case letters/digits only, directory names never a prefix of a sibling '
    'file name: "sorted" is then the same for string order and per-component order (the manual only says sorted)',
    '`**` only as one whole non-final pattern component (zero or more directories); no bracket patterns (a line '
    'starting with `[` is a section header); glob entries in [cases] never match directories',
    'symbolic links only as a second name of a suite file that is also listed directly (expected: double '
    'inclusion); no symbolic links to directories; no absolute entries; entries never leave the tree',
    'names shown by the reporters are not prescribed by the manual: a shown name must denote the expected file '
    'relative to the current directory or to the directory of the root suite; the two reporters must show the '
    'same names',
    'an undecodable (non UTF-8) case file must be shown with one of the error identifiers (which one is not '
    'documented) and counts as unsuccessful',
    'JUnit: the exit code of a completed run is not judged; a suite without cases may be absent from the XML; '
    'an invalid suite must give exit 3, no testcase element and no execution (stdout otherwise not prescribed)',
    'suite files contain only [cases]/[suites] (common case contents of suites belong to C17)',
]
EXHAUSTIVE_NOTE = ('verdict class variants (21) x 5 positions, and the list of invalid-suite classes x depth, are '
                   'enumerated completely in both tiers')
MIN_OBS = {'quick': {'evaluations': 400, 'c16.progress_valid_checked': 150, 'c16.junit_valid_checked': 150,
                     'c16.invalid_checked': 100, 'c16.log_compared': 300, 'c16.reporters_compared': 150,
                     'c16.order_nontrivial': 60, 'c16.subprocess_crosschecks': 8, 'classes': 150},
           'thorough': {'evaluations': 3000, 'c16.progress_valid_checked': 1000, 'c16.junit_valid_checked': 1000,
                        'c16.invalid_checked': 500, 'c16.log_compared': 2000, 'c16.reporters_compared': 1000,
                        'c16.order_nontrivial': 600, 'c16.subprocess_crosschecks': 8, 'classes': 400}}

NVAR = {'PASS': 2, 'FAIL': 2, 'XFAIL': 2, 'XPASS': 1, 'SKIPPED': 2, 'SYNTAX_INSTR': 3, 'SYNTAX_ACT': 1,
        'VALIDATION_ERROR': 2, 'HARD_ERROR': 4, 'FILE_ACCESS_ERROR': 1, 'UNDECODABLE': 1}
ALL_CLASSES = list(NVAR)
SUCCESS_CLASSES = ['PASS', 'SKIPPED', 'XFAIL']

CASE_NAMES = ['a', 'a1', 'a2', 'ab', 'b', 'b1', 'c', 'k', 'm', 'x', 'y', 'z']
DIR_NAMES = ['d1', 'd2', 'e', 'sub', 'w']
CASE_GLOBS = ['*.case', '?.case', '??.case', 'a*.case', 'b*.case', '*/*.case', 'cs/*.case', '**/*.case',
              '**/a.case', 'cs/**/*.case', '*1.case', '**/?.case']
SUITE_GLOBS = ['s*.suite', 's?.suite', '*/s*.suite', 'd?', 'd*', '*/exactly.suite', '**/s*.suite', 'd?/s*.suite']
SYNTAX_DEFECTS = ['unknown_section', 'unknown_instruction', 'superfluous_case_arg', 'superfluous_suite_arg',
                  'text_after_section_header',
                  # an EXISTING listed file, quoted, followed by a superfluous argument / with the quote left open
                  'superfluous_after_hard_quoted', 'superfluous_after_soft_quoted', 'unterminated_quote']


# =================================================================================================
# KNOWN findings (keyed by mechanism)
# =================================================================================================
def _known_junit_act_syntax(v):
    """S3: the JUnit reporter treats a case whose [act] phase has a syntax error like a passing case: no
    <failure>/<error> child, and it is not counted in `failures`/`errors`.  Predicted defective observation:
    (a) the child-less unsuccessful testcase is exactly a SYNTAX_ACT case, or (b) failures+errors of a testsuite is
    lower than the number of unsuccessful cases by exactly the number of its SYNTAX_ACT cases."""
    d = v.get('detail') or {}
    k = d.get('kind')
    if k == 'junit_unsuccessful_without_child':
        return d.get('case_class') == 'SYNTAX_ACT' and d.get('children') == []
    if k == 'junit_failures_plus_errors':
        n = d.get('n_syntax_act_in_suite', 0)
        return n > 0 and d.get('observed') == d.get('expected') - n
    return False


KNOWN = {'junit-act-phase-syntax-error-reported-as-pass': _known_junit_act_syntax}


# =================================================================================================
# Tree builder (used by the generator; produces a JSON-able descriptor)
# =================================================================================================
_IN_LINE_DEFECTS = {'superfluous_after_hard_quoted': "'%s' superfluous-argument",
                    'superfluous_after_soft_quoted': '"%s" superfluous.case',
                    'unterminated_quote': "'%s"}


def suite_text(items, omit=False, decor=0, defect=None, defect_at_start=False):
    """Renders a suite file.  items: [[section, line], ...] in file order; a header is written whenever the
    section changes (so sections may appear several times); with omit=True the leading [cases] header is left out
    ([cases] is the default section)."""
    if defect and defect_at_start:
        omit = False
    lines = []
    cur = 'cases' if omit else None
    if decor & 1:
        lines += ['# a comment line', '']
    in_line = None
    if defect in _IN_LINE_DEFECTS:
        plain = [i for i, (sec, line) in enumerate(items) if not any(c in line for c in '*?[]\'" ')]
        if plain:
            in_line = plain[0] if defect_at_start else plain[-1]
        else:
            defect = 'superfluous_case_arg'
    for i, (sec, line) in enumerate(items):
        if sec != cur:
            if decor & 2:
                lines.append('')
            lines.append('[%s]' % sec)
            cur = sec
        if i == in_line:
            line = _IN_LINE_DEFECTS[defect] % line
        lines.append(line)
        if decor & 4:
            lines += ['', '#' + line]
    block = {
        None: [],
        'unknown_section': ['[no-such-section]', 'foo'],
        'unknown_instruction': ['[setup]', 'no-such-instruction x'],
        'superfluous_case_arg': ['[cases]', 'one.case two.case'],
        'superfluous_suite_arg': ['[suites]', 'one.suite two.suite'],
        'text_after_section_header': ['[cases] trailing-text'],
    }.get(defect, [])
    lines = (block + lines) if defect_at_start else (lines + block)
    return '\n'.join(lines) + ('\n' if lines else '')


class Tree:
    def __init__(self):
        self.suites = {}  # path -> {'items': [...], 'omit':, 'decor':, 'defect':, 'defect_at_start':}
        self.cases = {}  # path -> {'id':, 'cls':, 'var':}
        self.links = {}  # path -> target (relative to the link's directory)
        self.dirs = []  # extra (possibly empty) directories
        self._n = 0

    def case(self, path, cls='PASS', var=0):
        self._n += 1
        self.cases[path] = {'id': 'k%d' % self._n, 'cls': cls, 'var': var % NVAR[cls]}
        return path

    def suite(self, path, items, omit=False, decor=0, defect=None, defect_at_start=False):
        self.suites[path] = {'items': [list(i) for i in items], 'omit': omit, 'decor': decor, 'defect': defect,
                             'defect_at_start': defect_at_start}

    def prefixed(self, prefix):
        if not prefix:
            return self
        t = Tree()
        t.suites = {posixpath.join(prefix, p): s for p, s in self.suites.items()}
        t.cases = {posixpath.join(prefix, p): c for p, c in self.cases.items()}
        t.links = {posixpath.join(prefix, p): l for p, l in self.links.items()}
        t.dirs = [posixpath.join(prefix, p) for p in self.dirs]
        return t

    def descriptor(self, kind, root='root.suite', arg_form='rel', cwd='', label=None, note=None):
        d = {'kind': kind, 'suites': self.suites, 'cases': self.cases, 'links': self.links, 'dirs': self.dirs,
             'root': root, 'arg_form': arg_form, 'cwd': cwd}
        if label is not None:
            d['label'] = label
        if note is not None:
            d['note'] = note
        return d


def vfs_of(desc) -> model.VFS:
    files = {}
    for p in desc['suites']:
        files[p] = 'f'
    for p in desc['cases']:
        files[p] = 'f'
    for p, t in desc['links'].items():
        files[p] = ['l', t]
    for p in desc['dirs']:
        files[p] = 'd'
    return model.VFS(files)


def model_of(desc):
    """-> ('valid', enumeration, root node) | ('invalid', InvalidSuite)"""
    try:
        node = model.read_hierarchy(vfs_of(desc), desc['suites'], desc['root'])
    except model.InvalidSuite as ex:
        return 'invalid', ex, None
    return 'valid', model.enumeration(node), node


# =================================================================================================
# Generator
# =================================================================================================
def cases(tier, seed):
    for d in _core():
        yield d
        # every double-inclusion tree also with the root suite given as an ABSOLUTE path (the spelling of a path
        # through `..` or a symbolic link must not hide that a suite is reachable twice)
        if d.get('kind') == 'core-invalid' and str(d.get('label', '')).startswith('double:') \
                and d.get('arg_form', 'rel') == 'rel' and not d.get('cwd'):
            d2 = dict(d)
            d2['arg_form'] = 'abs'
            d2['label'] = d['label'] + ':abs-root-arg'
            yield d2
    n = 150 if tier == 'quick' else 3000
    rng = common.rng_for(seed, ID, 'random-trees')
    for i in range(n):
        yield _random_descriptor(rng, i)


def _core():
    for d in _core_verdicts():
        yield d
    for d in _core_invalid():
        yield d
    for d in _core_order_and_controls():
        yield d


def _core_verdicts():
    pos_names = ['alone', 'first', 'middle', 'last', 'in_sub_suite']
    i = 0
    for cls in ALL_CLASSES:
        for var in range(NVAR[cls]):
            for pos in pos_names:
                i += 1
                t = Tree()
                if pos == 'alone':
                    t.case('t.case', cls, var)
                    t.suite('root.suite', [['cases', 't.case']], omit=bool(i % 2))
                elif pos == 'in_sub_suite':
                    t.case('sub/t.case', cls, var)
                    t.case('p1.case')
                    t.case('p2.case')
                    t.suite('sub/s.suite', [['cases', 't.case']])
                    t.suite('root.suite', [['cases', 'p1.case'], ['suites', 'sub/s.suite'], ['cases', 'p2.case']],
                            omit=bool(i % 2))
                else:
                    names = ['p1.case', 'p2.case', 'p3.case']
                    names.insert({'first': 0, 'middle': 2, 'last': 3}[pos], 't.case')
                    for n in names:
                        if n == 't.case':
                            t.case(n, cls, var)
                        else:
                            t.case(n)
                    t.suite('root.suite', [['cases', n] for n in names], omit=bool(i % 2), decor=i % 8)
                yield t.descriptor('core-verdict', label='%s/%d/%s' % (cls, var, pos))
    # all success classes together -> OK ; all classes together -> ERROR
    t = Tree()
    names = []
    for j, cls in enumerate(SUCCESS_CLASSES * 2):
        names.append(t.case('c%d.case' % j, cls, j // 3))
    t.suite('root.suite', [['cases', n] for n in names])
    yield t.descriptor('core-verdict', label='all-success-classes')
    t = Tree()
    for j, cls in enumerate(ALL_CLASSES[:6]):
        t.case('c%d.case' % j, cls, 0)
    for j, cls in enumerate(ALL_CLASSES[6:]):
        t.case('sub/c%d.case' % j, cls, 0)
    t.suite('sub/s.suite', [['cases', '*.case']])
    t.suite('root.suite', [['suites', 'sub/s.suite'], ['cases', '*.case']])
    yield t.descriptor('core-verdict', label='all-classes')


def _base_tree():
    """The tree measured in DESIGN Appendix A (all cases pass)."""
    t = Tree()
    for p in ('b.case', 'a1.case', 'a2.case', 'sub/x.case', 'sub/e/z.case', 'd2/y.case'):
        t.case(p)
    t.suite('root.suite', [['suites', 'sub/s1.suite'], ['suites', 'd2'], ['cases', 'b.case'], ['cases', 'a*.case']])
    t.suite('sub/s1.suite', [['cases', 'x.case'], ['suites', 'e/z.suite']])
    t.suite('sub/e/z.suite', [['cases', 'z.case']], omit=True)
    t.suite('d2/exactly.suite', [['cases', 'y.case']], omit=True)
    return t


_LEVEL_FILES = ['root.suite', 'sub/s1.suite', 'sub/e/z.suite']


def _core_invalid():
    def add(t, path, item, first=False):
        items = t.suites[path]['items']
        if first:
            items.insert(0, list(item))
        else:
            items.append(list(item))

    # --- double inclusion -------------------------------------------------------------------------
    for label, path, entry in [
        ('same-spelling-twice', 'root.suite', 'sub/s1.suite'),
        ('dot-slash', 'root.suite', './sub/s1.suite'),
        ('detour', 'root.suite', 'sub/../sub/s1.suite'),
        ('detour2', 'root.suite', 'd2/../sub/e/../s1.suite'),
        ('glob-and-plain', 'root.suite', 'sub/*.suite'),
        ('glob-question', 'root.suite', 'sub/s?.suite'),
        ('glob-starstar', 'root.suite', '**/z.suite'),
        ('diamond', 'd2/exactly.suite', '../sub/e/z.suite'),
        ('cycle-to-root', 'sub/e/z.suite', '../../root.suite'),
        ('cycle-to-parent', 'sub/e/z.suite', '../s1.suite'),
        ('self', 'root.suite', 'root.suite'),
        ('self-deep', 'sub/e/z.suite', 'z.suite'),
        ('self-via-glob', 'root.suite', '*.suite'),
        ('dir-and-file-spelling', 'root.suite', 'd2/exactly.suite'),
        ('dir-twice', 'root.suite', 'd2'),
        ('dir-dot-slash', 'root.suite', './d2'),
        ('dir-via-glob', 'root.suite', 'd?'),
    ]:
        for first in (False, True):
            if first and label not in ('dot-slash', 'detour', 'glob-and-plain', 'dir-and-file-spelling', 'self'):
                continue
            t = _base_tree()
            add(t, path, ['suites', entry], first)
            yield t.descriptor('core-invalid', label='double:%s%s' % (label, ':first' if first else ''))
    t = _base_tree()
    t.links['ln.suite'] = 'sub/s1.suite'
    add(t, 'root.suite', ['suites', 'ln.suite'])
    yield t.descriptor('core-invalid', label='double:symlink')
    t = _base_tree()
    t.links['sub/ln.suite'] = 'e/z.suite'
    add(t, 'sub/s1.suite', ['suites', 'ln.suite'], True)
    yield t.descriptor('core-invalid', label='double:symlink-deep')
    # the link lies beside its target: the entries of the suite resolve the same way through either name, so that only
    # the double inclusion itself can make the run invalid
    t = _base_tree()
    t.links['sub/alias.suite'] = 's1.suite'
    add(t, 'root.suite', ['suites', 'sub/alias.suite'])
    yield t.descriptor('core-invalid', label='double:symlink-beside-target')
    t = _base_tree()
    t.links['sub/alias.suite'] = 's1.suite'
    add(t, 'root.suite', ['suites', 'sub/alias.suite'], True)
    yield t.descriptor('core-invalid', label='double:symlink-beside-target:first')
    t = _base_tree()
    t.links['d2/alias.suite'] = 'exactly.suite'
    add(t, 'root.suite', ['suites', 'd2/alias.suite'])
    yield t.descriptor('core-invalid', label='double:symlink-to-default-suite-file')
    t = _base_tree()
    t.links['sub/e/alias.suite'] = 'z.suite'
    add(t, 'sub/s1.suite', ['suites', 'e/a*.suite'])
    yield t.descriptor('core-invalid', label='double:symlink-beside-target-via-glob')
    # one glob whose matches hold the same suite twice: a directory (standing for its exactly.suite) and that file
    t = _base_tree()
    add(t, 'root.suite', ['suites', '**/*exactly*'])
    yield t.descriptor('core-invalid', label='double:one-glob-matching-file-and-(already listed)-dir')
    t = Tree()
    t.case('net-suite/n.case')
    t.suite('net-suite/exactly.suite', [['cases', 'n.case']])
    t.suite('all.tests', [['suites', '**/*suite*']])
    yield t.descriptor('core-invalid', root='all.tests', label='double:one-glob-matching-dir-and-its-default-suite-file')
    # --- missing files ----------------------------------------------------------------------------
    for lvl, path in enumerate(_LEVEL_FILES):
        for sec, name in (('cases', 'missing.case'), ('suites', 'missing.suite'), ('cases', 'nodir/x.case'),
                          ('suites', 'nodir')):
            for first in (False, True):
                if first and lvl == 1:
                    continue
                t = _base_tree()
                add(t, path, [sec, name], first)
                yield t.descriptor('core-invalid', label='missing:%s:%d%s' % (name, lvl, ':first' if first else ''))
    t = _base_tree()
    t.case('d3/q.case')
    add(t, 'root.suite', ['suites', 'd3'])
    yield t.descriptor('core-invalid', label='missing:default-suite-file-in-dir')
    t = _base_tree()
    t.dirs.append('sub/empty')
    add(t, 'sub/s1.suite', ['suites', 'empty'])
    yield t.descriptor('core-invalid', label='missing:default-suite-file-in-empty-dir')
    t = _base_tree()
    t.case('d3/q.case')
    t.suite('root.suite', [['suites', 'sub/s1.suite'], ['suites', 'd?'], ['cases', 'b.case']])
    yield t.descriptor('core-invalid', label='missing:default-suite-file-in-globbed-dir')
    # --- syntax errors ----------------------------------------------------------------------------
    for lvl, path in enumerate(_LEVEL_FILES):
        for defect in SYNTAX_DEFECTS:
            for at_start in (False, True):
                t = _base_tree()
                t.suites[path]['defect'] = defect
                t.suites[path]['defect_at_start'] = at_start
                yield t.descriptor('core-invalid', label='syntax:%s:%d%s' % (defect, lvl, ':start' if at_start else ''))
    # --- other ways of naming the root -------------------------------------------------------------
    t = _base_tree()
    add(t, 'sub/e/z.suite', ['cases', 'missing.case'])
    yield t.descriptor('core-invalid', arg_form='abs', label='missing:abs-root-arg')
    t = _base_tree()
    add(t, 'sub/e/z.suite', ['suites', '../../root.suite'])
    yield t.descriptor('core-invalid', arg_form='rel', cwd='d2', label='double:cycle-other-cwd')


def _core_order_and_controls():
    # O1 the measured tree, named in several ways
    for arg_form, cwd in (('rel', ''), ('abs', ''), ('rel', 'sub/e'), ('abs', 'd2')):
        yield _base_tree().descriptor('core-order', arg_form=arg_form, cwd=cwd, label='appendix-tree:%s:%s' % (arg_form, cwd))
    t = _base_tree()
    t.suites['exactly.suite'] = t.suites.pop('root.suite')
    yield t.descriptor('core-order', root='exactly.suite', arg_form='dir', label='appendix-tree:root-is-directory')
    yield t.prefixed('top').descriptor('core-order', root='top/exactly.suite', arg_form='dir',
                                       label='appendix-tree:root-is-sub-directory')
    yield _base_tree().prefixed('top/t2').descriptor('core-order', root='top/t2/root.suite', cwd='top',
                                                     label='appendix-tree:root-below-cwd')
    # O2 one glob, many matches (directory order on disk is not sorted)
    t = Tree()
    for n in ('m', 'a', 'k', 'b1', 'a2', 'z', 'c', 'ab'):
        t.case(n + '.case')
    t.suite('root.suite', [['cases', '*.case']], omit=True)
    yield t.descriptor('core-order', label='glob-star-8')
    # O3 ** with nested directories
    t = Tree()
    for p in ('x.case', 'd1/x.case', 'd1/e/x.case', 'd2/x.case', 'd2/a.case', 'w/x.case', 'b.case'):
        t.case(p)
    t.suite('root.suite', [['cases', '**/x.case']])
    yield t.descriptor('core-order', label='glob-starstar')
    t = Tree()
    for p in ('x.case', 'd1/x.case', 'd1/e/x.case', 'd2/x.case', 'd2/a.case', 'w/x.case', 'b.case'):
        t.case(p, 'PASS' if 'd2' not in p else 'FAIL')
    t.suite('root.suite', [['cases', '**/*.case']])
    yield t.descriptor('core-order', label='glob-starstar-star')
    # O4 globs in [suites]
    t = Tree()
    for j, n in enumerate(('s4', 's1', 's3', 's2', 's5', 's9')):
        t.case('c%s.case' % n)
        t.suite(n + '.suite', [['cases', 'c%s.case' % n]], omit=bool(j % 2))
    t.case('r.case')
    t.suite('root.suite', [['cases', 'r.case'], ['suites', 's*.suite']])
    yield t.descriptor('core-order', label='suites-glob-star-6')
    t = Tree()
    for n in ('d3', 'd1', 'd5', 'd2', 'd4', 'd7'):
        t.case(n + '/q.case')
        t.suite(n + '/exactly.suite', [['cases', 'q.case']])
    t.suite('root.suite', [['suites', 'd?']])
    yield t.descriptor('core-order', label='suites-glob-dirs-6')
    t = Tree()
    for n in ('d3', 'd1', 'd2/e', 'w', 'd2'):
        t.case(n + '/q.case')
        t.suite(n + '/sx.suite', [['cases', 'q.case']])
    t.suite('root.suite', [['suites', '**/sx.suite']])
    yield t.descriptor('core-order', label='suites-glob-starstar')
    # O5 listing order is kept (not sorted), for cases and for suites
    t = Tree()
    for n in ('m', 'a', 'k'):
        t.case(n + '.case')
    for n in ('s3', 's1', 's2'):
        t.case('c%s.case' % n, 'FAIL' if n == 's1' else 'PASS')
        t.suite(n + '.suite', [['cases', 'c%s.case' % n]])
    t.suite('root.suite', [['cases', 'm.case'], ['cases', 'a.case'], ['cases', 'k.case'],
                           ['suites', 's3.suite'], ['suites', 's1.suite'], ['suites', 's2.suite']])
    yield t.descriptor('core-order', label='listing-order-kept')
    # O6 several glob lines: line order first, sorted inside a line
    t = Tree()
    for n in ('b2', 'a2', 'b1', 'a1', 'b3', 'a3'):
        t.case(n + '.case')
    t.suite('root.suite', [['cases', 'b*.case'], ['cases', 'a*.case']])
    yield t.descriptor('core-order', label='two-glob-lines')
    # O7 depth 3 with siblings, sections interleaved and repeated
    t = Tree()
    for p in ('r1.case', 'r2.case', 'd1/p.case', 'd1/e/g1.case', 'd1/w/g2.case', 'd2/q.case', 'd2/e/g3.case'):
        t.case(p)
    t.suite('root.suite', [['cases', 'r2.case'], ['suites', 'd2/sb.suite'], ['cases', 'r1.case'], ['suites', 'd1']])
    t.suite('d1/exactly.suite', [['suites', 'w/g.suite'], ['cases', 'p.case'], ['suites', 'e/g.suite']])
    t.suite('d1/e/g.suite', [['cases', 'g1.case']])
    t.suite('d1/w/g.suite', [['cases', 'g2.case']])
    t.suite('d2/sb.suite', [['cases', 'q.case'], ['suites', 'e']])
    t.suite('d2/e/exactly.suite', [['cases', 'g3.case']], omit=True)
    yield t.descriptor('core-order', label='depth3-siblings-interleaved-sections')
    # --- valid controls (must NOT be invalid) -------------------------------------------------------
    t = _base_tree()
    t.suite('sub/unused.suite', [], defect='unknown_section')
    t.links['dangling.suite'] = 'nowhere.suite'
    yield t.descriptor('core-control', label='unlisted-broken-suite-file-and-dangling-link')
    t = _base_tree()
    t.suites['root.suite']['items'] += [['cases', 'nomatch*.case'], ['suites', 'nomatch?.suite']]
    yield t.descriptor('core-control', label='globs-without-matches')
    t = _base_tree()
    t.suites['root.suite']['items'] += [['cases', 'b.case'], ['cases', './a1.case'], ['cases', 'sub/../b.case']]
    yield t.descriptor('core-control', label='case-listed-several-times')
    t = _base_tree()
    t.suites['d2/exactly.suite']['items'] += [['cases', '../sub/x.case'], ['cases', '../sub/e/z.case']]
    yield t.descriptor('core-control', label='case-listed-in-two-suites')
    # --- cases that lie outside the directory tree of the root suite (listed through `..`), every verdict class -------
    for j, cls in enumerate(ALL_CLASSES):
        t = Tree()
        t.case('shared/o.case', cls, 0)
        t.case('proj/p.case')
        t.suite('proj/root.suite', [['cases', 'p.case'], ['cases', '../shared/o.case']])
        yield t.descriptor('core-verdict', root='proj/root.suite', cwd=('', 'proj')[j % 2],
                           label='%s/0/outside-the-tree-of-the-root-suite' % cls)
    # --- quoted entries: a quoted token is a plain file name, also when it holds pattern characters or spaces -------
    t = Tree()
    t.case('what?.case', 'FAIL')
    t.case('what1.case')
    t.case('p.case')
    t.suite('root.suite', [['cases', 'p.case'], ['cases', "'what?.case'"]])
    yield t.descriptor('core-order', label='quoted-name-with-question-mark')
    t = Tree()
    t.case('odd[1].case', 'FAIL')
    t.case('odd1.case')
    t.suite('root.suite', [['cases', '"odd[1].case"'], ['cases', 'odd1.case']], omit=True)
    yield t.descriptor('core-order', label='quoted-name-with-brackets')
    t = Tree()
    t.case('st*r.case')
    t.case('star.case', 'FAIL')
    t.case('my case.case', 'XFAIL')
    t.suite('root.suite', [['cases', "'st*r.case'"], ['cases', "'my case.case'"]])
    yield t.descriptor('core-order', label='quoted-name-with-star-and-with-space')
    t = Tree()
    t.case('sub/a.case', 'FAIL')
    t.case('sx/b.case')
    t.case('r.case')
    t.suite('sub/s[x].suite', [['cases', 'a.case']])
    t.suite('sx/sx.suite', [['cases', 'b.case']])
    t.suite('root.suite', [['suites', "'sub/s[x].suite'"], ['cases', 'r.case']])
    yield t.descriptor('core-order', label='quoted-suite-name-with-brackets')
    t = Tree()
    t.case('nope1.case')
    t.case('p.case')
    t.suite('root.suite', [['cases', 'p.case'], ['cases', "'nope*.case'"]])
    yield t.descriptor('core-invalid', label='missing:quoted-name-with-star-is-not-a-pattern')
    t = Tree()
    t.case('p.case')
    t.suite('s1.suite', [['cases', 'p.case']])
    t.suite('root.suite', [['suites', '"s?.suite"']])
    yield t.descriptor('core-invalid', label='missing:quoted-suite-name-with-question-mark-is-not-a-pattern')
    # --- a listed name that cannot exist: a path component is a regular file; a name longer than the OS accepts ------
    t = Tree()
    t.case('p.case')
    t.suite('root.suite', [['cases', 'p.case'], ['cases', 'p.case/x.case']])
    yield t.descriptor('core-invalid', label='missing:case-below-a-regular-file')
    t = Tree()
    t.case('p.case')
    t.suite('root.suite', [['suites', 'p.case/x.suite'], ['cases', 'p.case']])
    yield t.descriptor('core-invalid', label='missing:suite-below-a-regular-file')
    t = Tree()
    t.case('p.case')
    t.suite('root.suite', [['cases', 'p.case'], ['cases', 'n' * 300 + '.case']])
    yield t.descriptor('core-invalid', label='missing:case-name-longer-than-the-os-accepts')
    t = Tree()
    t.case('p.case')
    t.suite('sub/s.suite', [['suites', 'n' * 300 + '.suite']])
    t.suite('root.suite', [['cases', 'p.case'], ['suites', 'sub/s.suite']])
    yield t.descriptor('core-invalid', label='missing:suite-name-longer-than-the-os-accepts-in-sub-suite')
    t = Tree()
    t.suite('root.suite', [])
    yield t.descriptor('core-control', label='empty-suite')
    t = Tree()
    t.suite('e1.suite', [], decor=1)
    t.case('sub/q.case', 'XFAIL')
    t.suite('sub/s.suite', [['cases', 'q.case']])
    t.suite('root.suite', [['suites', 'e1.suite'], ['suites', 'sub/s.suite']])
    yield t.descriptor('core-control', label='root-without-cases-and-empty-sub-suite')
    t = Tree()
    t.case('plain-name')
    t.case('x.suite', 'FAIL')
    t.case('sub/y.txt', 'SKIPPED')
    t.suite('sub/cases-here', [['cases', 'y.txt']], omit=True)
    t.suite('root.suite', [['cases', 'plain-name'], ['cases', 'x.suite'], ['suites', 'sub/cases-here']])
    yield t.descriptor('core-control', label='arbitrary-file-names')


# ---------------------------------------------------------------------------------------------
def _random_descriptor(rng, index):
    for _ in range(200):
        all_success = rng.random() < 0.35
        t, root = _random_tree(rng, all_success)
        inject = rng.random() < 0.25
        desc = t.descriptor('random', root=root)
        try:
            status, enum, node = model_of(desc)
            if status == 'valid':
                n_cases = sum(len(c) for _, c in enum)
                if n_cases > 8 or len(enum) > 9:
                    continue
                if (n_cases == 0 and rng.random() < 0.9) or (len(enum) == 1 and rng.random() < 0.6):
                    continue  # keep trivial trees rare
                if inject:
                    desc['note'] = _inject_defect(rng, t, enum)
                    status, enum, node = model_of(desc)
                    if status == 'valid':
                        continue
            elif rng.random() < 0.5:
                continue  # keep the share of accidentally invalid trees moderate
        except model.ModelAmbiguity:
            continue
        # how the root is named on the command line
        u = rng.random()
        root_dir = posixpath.dirname(root)
        if posixpath.basename(root) == 'exactly.suite' and u < 0.6:
            desc['arg_form'] = 'dir'
        elif u < 0.75:
            desc['arg_form'] = 'rel'
        else:
            desc['arg_form'] = 'abs'
        v = rng.random()
        if v < 0.2:
            dirs = sorted({posixpath.dirname(p) for p in list(t.suites) + list(t.cases)})
            desc['cwd'] = rng.choice(dirs)
        elif v < 0.3:
            desc['cwd'] = root_dir
        desc['index'] = index
        return desc
    raise RuntimeError('random generator did not converge')


def _random_tree(rng, all_success):
    t = Tree()
    counter = [0]
    taken_dirs = set()

    def pick_class():
        if all_success:
            return rng.choice(SUCCESS_CLASSES + ['PASS'])
        if rng.random() < 0.45:
            return 'PASS'
        return rng.choice(ALL_CLASSES)

    def fresh_dir(parent):
        cands = [n for n in DIR_NAMES if posixpath.join(parent, n) not in taken_dirs]
        if not cands:
            return None
        d = posixpath.join(parent, rng.choice(cands))
        taken_dirs.add(d)
        return d

    def spell(rel, allow_detour_via=None):
        u = rng.random()
        if u < 0.08:
            return './' + rel
        if u < 0.14 and allow_detour_via:
            return allow_detour_via + '/../' + rel
        return rel

    def make_suite(path, level):
        d = posixpath.dirname(path)
        case_items = []
        owned = []
        for _ in range(rng.choice([0, 1, 1, 2, 2, 3, 4])):
            loc = rng.choice(['', '', '', '', 'cs', 'cs', 'cs/t'])
            rel = posixpath.join(loc, rng.choice(CASE_NAMES) + '.case')
            p = posixpath.join(d, rel)
            if p in t.cases:
                continue
            cls = pick_class()
            t.case(p, cls, rng.randrange(NVAR[cls]))
            owned.append(rel)
        n_entries = rng.randint(1, 3) if owned else rng.choice([0, 0, 1])
        for _ in range(n_entries):
            u = rng.random()
            if owned and u < 0.55:
                case_items.append(['cases', spell(rng.choice(owned))])
            elif u < 0.95:
                case_items.append(['cases', rng.choice(CASE_GLOBS)])
            else:
                case_items.append(['cases', 'nomatch*.case'])
        suite_items = []
        if level < 3:
            n_child = rng.choice([0, 1, 1, 2, 2, 3]) if level == 1 else rng.choice([0, 0, 1, 1, 2])
            children = []
            for _ in range(n_child):
                kind = rng.choice(['same', 'subdir-file', 'subdir-default', 'subdir-default', 'nested'])
                counter[0] += 1
                if kind == 'same':
                    rel = 's%d.suite' % counter[0]
                else:
                    nd = fresh_dir(d)
                    if nd is None:
                        continue
                    reld = posixpath.relpath(nd, d or '.')
                    if kind == 'subdir-file':
                        rel = reld + '/s%d.suite' % counter[0]
                    elif kind == 'subdir-default':
                        rel = reld + '/exactly.suite'
                    else:
                        nd2 = fresh_dir(nd)
                        rel = posixpath.relpath(nd2, d or '.') + '/s%d.suite' % counter[0]
                children.append(rel)
                make_suite(posixpath.join(d, rel), level + 1)
            use_glob = children and rng.random() < 0.3
            if use_glob:
                suite_items.append(['suites', rng.choice(SUITE_GLOBS)])
                if rng.random() < 0.3:
                    suite_items.append(['suites', rng.choice(SUITE_GLOBS)])
            else:
                for rel in children:
                    if rel.endswith('/exactly.suite') and rng.random() < 0.6:
                        rel = posixpath.dirname(rel)
                    first_dir = rel.split('/')[0] if '/' in rel else None
                    suite_items.append(['suites', spell(rel, first_dir)])
            rng.shuffle(suite_items)
            suite_items = suite_items[:3]
        # merge the two sections in a random interleaving (order inside each section kept)
        items = []
        ci, si = list(case_items), list(suite_items)
        mode = rng.choice(['cases-first', 'suites-first', 'interleave'])
        if mode == 'cases-first':
            items = ci + si
        elif mode == 'suites-first':
            items = si + ci
        else:
            while ci or si:
                src = ci if (ci and (not si or rng.random() < 0.5)) else si
                items.append(src.pop(0))
        t.suite(path, items, omit=rng.random() < 0.4, decor=rng.randrange(8))

    u = rng.random()
    if u < 0.7:
        root = 'root.suite'
    elif u < 0.85:
        root = 'exactly.suite'
    else:
        taken_dirs.add('top')
        root = rng.choice(['top/main.suite', 'top/exactly.suite'])
    make_suite(root, 1)
    return t, root


def _inject_defect(rng, t, enum):
    """Makes a valid tree invalid in one documented way; returns a note."""
    suites_reached = [p for p, _ in enum]
    victim = rng.choice(suites_reached)
    vd = posixpath.dirname(victim)
    items = t.suites[victim]['items']
    kind = rng.choice(['double', 'cycle', 'missing_case', 'missing_suite', 'syntax', 'syntax'])

    def put(item):
        items.insert(rng.randint(0, len(items)), item)

    if kind == 'double':
        target = rng.choice(suites_reached)
        rel = posixpath.relpath(target, vd or '.')
        if rel.endswith('/exactly.suite') and rng.random() < 0.5:
            rel = posixpath.dirname(rel)
        if rng.random() < 0.3:
            rel = './' + rel
        put(['suites', rel])
    elif kind == 'cycle':
        put(['suites', posixpath.relpath(enum[-1][0], vd or '.')])
    elif kind == 'missing_case':
        put(['cases', rng.choice(['missing.case', 'cs/missing.case', 'nodir/a.case'])])
    elif kind == 'missing_suite':
        put(['suites', rng.choice(['missing.suite', 'nodir', 'nodir/s.suite'])])
    else:
        t.suites[victim]['defect'] = rng.choice(SYNTAX_DEFECTS)
        t.suites[victim]['defect_at_start'] = rng.random() < 0.5
    return 'injected %s into %s' % (kind, victim)


# =================================================================================================
# Rendering of case files
# =================================================================================================
def case_file_contents(cid, cls, var, log):
    """-> str | bytes.  The first [setup] instruction appends the id to the log (outside the sandbox)."""
    mark = '$ echo %s >> %s' % (cid, log)
    conf, setup, act, ba, as_, cl, tail = [], [mark], ['$ true'], [], ['exit-code == 0'], [], []
    failing = [(['$ true'], ['exit-code == 1']), (['$ exit 3'], ['exit-code == 3', 'exit-code == 0'])]
    if cls == 'PASS':
        if var == 1:
            act, as_ = ['$ exit 3'], ['exit-code == 3']
    elif cls == 'FAIL':
        act, as_ = failing[var]
    elif cls == 'XFAIL':
        conf = ['status = FAIL']
        act, as_ = failing[var]
    elif cls == 'XPASS':
        conf = ['status = FAIL']
    elif cls == 'SKIPPED':
        conf = ['status = SKIP']
        if var == 1:
            act, as_ = failing[0]
    elif cls == 'SYNTAX_INSTR':
        if var == 0:
            as_ = ['exit-code == 0', 'exit-code == == 0']
        elif var == 1:
            cl = ['no-such-instruction arg']
        else:
            tail = ['[no-such-phase]', 'x']
    elif cls == 'SYNTAX_ACT':
        act = ['$ true', '$ true']
    elif cls == 'VALIDATION_ERROR':
        if var == 0:
            setup.append('copy this-file-does-not-exist.txt')
        else:
            cl = ['file x.txt = @[UNDEFINED_SYMBOL]@']
    elif cls == 'HARD_ERROR':
        if var == 0:
            setup.append('$ exit 1')
        elif var == 1:
            ba = ['$ exit 1']
        elif var == 2:
            cl = ['$ exit 1']
        else:
            as_ = ['exit-code == 0', 'contents this-file-does-not-exist.txt : is-empty']
    elif cls == 'FILE_ACCESS_ERROR':
        setup.append('including this-file-does-not-exist.xly')
    elif cls == 'UNDECODABLE':
        pass
    else:
        raise ValueError(cls)
    L = []
    for name, lines in (('conf', conf), ('setup', setup), ('act', act), ('before-assert', ba), ('assert', as_),
                        ('cleanup', cl)):
        if lines:
            L.append('[%s]' % name)
            L.extend(lines)
    L.extend(tail)
    text = '\n'.join(L) + '\n'
    if cls == 'UNDECODABLE':
        return text.encode() + b'# \xff\xfe\xc3\x28\n'
    return text


# =================================================================================================
# Parsing of what the reporters print
# =================================================================================================
_RX_CASE = re.compile(r'^case\s+(.*): \((\d+(?:\.\d+)?)s\) ([A-Z_]+)$')
_RX_SUITE = re.compile(r'^suite\s+(.*): (begin|end)$')


def parse_progress(out):
    """-> (blocks [(suite name, [(case name, ident)])], final line, problems)"""
    problems = []
    lines = out.split('\n')
    if lines and lines[-1] == '':
        lines.pop()
    else:
        problems.append('stdout does not end with a newline')
    final = lines.pop() if lines else None
    blocks = []
    cur = None
    for l in lines:
        m = _RX_SUITE.match(l)
        if m:
            if m.group(2) == 'begin':
                if cur is not None:
                    problems.append('suite begins inside a suite: %r' % l)
                cur = (m.group(1), [])
            else:
                if cur is None or cur[0] != m.group(1):
                    problems.append('unmatched end of suite: %r' % l)
                else:
                    blocks.append(cur)
                cur = None
            continue
        m = _RX_CASE.match(l)
        if m:
            if cur is None:
                problems.append('case line outside a suite: %r' % l)
                blocks.append((None, [(m.group(1), m.group(3))]))
            else:
                cur[1].append((m.group(1), m.group(3)))
            continue
        problems.append('stdout line is not an event of the progress reporter: %r' % l[:120])
    if cur is not None:
        problems.append('suite %r has no end' % cur[0])
        blocks.append(cur)
    return blocks, final, problems


def parse_junit(out):
    """-> (root tag, [ {name, package, tests, failures, errors, cases: [(name, [child tags])]} ], problem | None)
    A testsuite is identified by `name`, or by `package`/`name` (JUnit schema: package + name)."""
    try:
        root = ElementTree.fromstring(out.encode('utf-8'))
    except Exception as ex:
        return None, [], 'stdout is not well-formed XML: %s' % ex
    if root.tag == 'testsuites':
        elems = list(root)
    elif root.tag == 'testsuite':
        elems = [root]
    else:
        return root.tag, [], 'unexpected root element %r' % root.tag
    suites = []
    for e in elems:
        if e.tag != 'testsuite':
            return root.tag, [], 'unexpected element %r below testsuites' % e.tag
        tcs = []
        for tc in e:
            if tc.tag == 'testcase':
                tcs.append((tc.get('name'), [c.tag for c in tc]))
        suites.append({'name': e.get('name'), 'package': e.get('package'), 'tests': e.get('tests'),
                       'failures': e.get('failures'), 'errors': e.get('errors'), 'cases': tcs})
    return root.tag, suites, None


# =================================================================================================
# Execution of one descriptor
# =================================================================================================
def _entry_form(sec, line):
    if '**' in line:
        return 'glob**'
    if '*' in line:
        return 'glob*'
    if '?' in line:
        return 'glob?'
    if line.startswith('./'):
        return 'dotslash'
    if '..' in line.split('/'):
        return 'dotdot'
    if sec == 'suites' and not line.endswith('.suite') and '.' not in posixpath.basename(line):
        return 'dir'
    return 'plain'


def run_case(case, ctx):
    from vf.driver import write_files
    ses = ctx.get_session()
    d = os.path.realpath(ses.new_case_dir())
    tree = os.path.join(d, 'tree')
    log = os.path.join(d, 'log')
    os.makedirs(tree)
    # ---- write the tree (in an order unrelated to the sorted order) -------------------------------
    files = {}
    for p, s in case['suites'].items():
        files[p] = suite_text(s['items'], s.get('omit', False), s.get('decor', 0), s.get('defect'),
                              s.get('defect_at_start', False))
    for p, c in case['cases'].items():
        files[p] = case_file_contents(c['id'], c['cls'], c['var'], log)
    for p, tgt in case['links'].items():
        files[p] = ('symlink', tgt)
    for p in case['dirs']:
        files[p] = ('dir',)
    order = sorted(files, key=lambda p: common.sha(p))
    write_files(tree, {p: files[p] for p in order})

    status, enum, node = model_of(case)
    root_abs = os.path.join(tree, case['root'])
    root_dir_abs = os.path.dirname(root_abs)
    cwd_abs = os.path.normpath(os.path.join(tree, case.get('cwd', '')))
    arg_form = case.get('arg_form', 'rel')
    if arg_form == 'abs':
        arg = root_abs
    elif arg_form == 'dir':
        arg = os.path.relpath(root_dir_abs, cwd_abs)
    else:
        arg = os.path.relpath(root_abs, cwd_abs)
    bases = [cwd_abs, root_dir_abs]

    def denotes(name, tree_rel):
        if name is None:
            return False
        want = os.path.normpath(os.path.join(tree, tree_rel))
        return any(os.path.normpath(os.path.join(b, name)) == want for b in bases)

    viol, inconc, classes = [], [], []
    label = case.get('label') or case.get('note') or case['kind']

    def bad(reporter, msg, **detail):
        detail.setdefault('kind', 'other')
        detail['reporter'] = reporter
        detail['model'] = 'invalid: %s' % enum if status == 'invalid' else [list(x) for x in enum]
        viol.append({'what': 'C16 [%s] %s: %s' % (label, reporter, msg), 'detail': detail})

    by_path = case['cases']
    evaluations = 0
    shown = {}
    observed_for_sample = {}
    full_obs = {}
    for reporter in ('progress', 'junit'):
        if os.path.exists(log):
            os.remove(log)
        if reporter == 'junit':
            argv = ['suite', '--reporter', 'junit', arg]
        elif common.sha(case)[0] in '01234567':
            argv = ['suite', arg]
        else:
            argv = ['suite', '--reporter', 'progress', arg]
        r = ses.run(argv, cwd=cwd_abs, mode=None)
        evaluations += 1
        log_ids = []
        if os.path.exists(log):
            with open(log) as f:
                log_ids = f.read().split()
        full_obs[reporter] = (argv, r.rc, r.out, list(log_ids))
        observed_for_sample[reporter] = {'argv': argv[:-1] + ['<root>'], 'rc': r.rc, 'stdout': r.out[:1500],
                                         'log': log_ids}
        if r.timed_out:
            inconc.append('watchdog (%s)' % reporter)
            continue
        if r.exc is not None:
            bad(reporter, 'exception escaped MainProgram.execute', kind='exception', observed=r.brief())
            continue

        # =========================== invalid suite ============================================
        if status == 'invalid':
            ctx.count('c16.invalid_checked')
            reason = enum.kind
            lvl = _level_of(case, enum.suite)
            classes.append(('invalid', reason, 'level=%s' % lvl, reporter, 'rc=%s' % r.rc))
            if r.rc != 3:
                bad(reporter, 'invalid suite (%s) must exit 3, got %r' % (enum, r.rc), kind='invalid_rc',
                    observed=r.brief())
            if log_ids:
                bad(reporter, 'invalid suite (%s) but cases were executed: %r' % (enum, log_ids),
                    kind='invalid_executed', log=log_ids)
            started = [e for e in r.audit if e[0] in ('subprocess.Popen', 'tempfile.mkdtemp', 'os.fork', 'os.system')]
            if started or r.new_tmp_entries:
                bad(reporter, 'invalid suite (%s) but a process / sandbox was created' % enum,
                    kind='invalid_activity', events=started[:5], tmp=r.new_tmp_entries)
            if reporter == 'progress':
                blocks, final, problems = parse_progress(r.out)
                if final != 'INVALID_SUITE':
                    bad(reporter, 'invalid suite (%s): last stdout line must be INVALID_SUITE, got %r' % (enum, final),
                        kind='invalid_ident', observed=r.brief())
                if any(cs for _, cs in blocks):
                    bad(reporter, 'invalid suite (%s) but case events were reported' % enum, kind='invalid_case_events',
                        observed=r.brief())
            else:
                if '<testcase' in r.out:
                    bad(reporter, 'invalid suite (%s) but testcase elements were reported' % enum,
                        kind='invalid_case_events', observed=r.brief())
                if 'INVALID_SUITE' not in r.out and 'INVALID_SUITE' not in r.err:
                    ctx.count('c16.junit_invalid_without_identifier')
            continue

        # =========================== valid suite ===============================================
        flat = [(sp, cp) for sp, cps in enum for cp in cps]
        exp_log = [by_path[cp]['id'] for _, cp in flat if model.VERDICT_CLASSES[by_path[cp]['cls']][1]]
        ctx.count('c16.log_compared')
        if len(enum) > 1 or any(model.is_glob(l) for s in case['suites'].values() for _, l in s['items']):
            if len(flat) > 1:
                ctx.count('c16.order_nontrivial')
        if log_ids != exp_log:
            if sorted(log_ids) != sorted(exp_log):
                bad(reporter, 'executed cases %r, reference enumeration %r (each listed case exactly once)'
                    % (log_ids, exp_log), kind='log_multiset', observed=log_ids, expected=exp_log)
            else:
                bad(reporter, 'order of execution %r, reference order %r (sub-suites first, listing order, glob '
                              'matches sorted)' % (log_ids, exp_log), kind='log_order', observed=log_ids,
                    expected=exp_log)
        exp_classes = [by_path[cp]['cls'] for _, cp in flat]
        n_unsucc_total = sum(1 for c in exp_classes if not model.is_successful_class(c))
        forms = sorted({_entry_form(s, l) for sp, _ in enum for s, l in case['suites'][_canon(case, sp)]['items']})

        if reporter == 'progress':
            ctx.count('c16.progress_valid_checked')
            blocks, final, problems = parse_progress(r.out)
            for p in problems:
                bad(reporter, p, kind='progress_format', observed=r.brief())
            exp_final, exp_rc = model.expected_progress_final(exp_classes)
            classes.append(('valid', reporter, 'depth=%d' % node.depth(), 'suites=%d' % len(enum),
                            'cases=%d' % len(flat), forms, '%s/%s' % (final, r.rc)))
            if final != exp_final or r.rc != exp_rc:
                bad(reporter, 'final line / exit code %r/%r, documented %s/%d for case verdicts %r'
                    % (final, r.rc, exp_final, exp_rc, exp_classes), kind='progress_final',
                    observed=[final, r.rc], expected=[exp_final, exp_rc], verdict_classes=exp_classes)
            if len(blocks) != len(enum):
                bad(reporter, 'suites reported %r, reference %r' % ([b[0] for b in blocks], [s for s, _ in enum]),
                    kind='progress_suites', observed=r.brief())
            else:
                for (sname, cs), (sp, cps) in zip(blocks, enum):
                    if not denotes(sname, sp):
                        bad(reporter, 'suite shown as %r where the reference order has %r' % (sname, sp),
                            kind='progress_suite_order', observed=[b[0] for b in blocks])
                        break
                    if len(cs) != len(cps) or not all(denotes(n, cp) for (n, _), cp in zip(cs, cps)):
                        bad(reporter, 'cases of suite %s shown as %r, reference %r' % (sp, [n for n, _ in cs], cps),
                            kind='progress_cases', observed=[n for n, _ in cs], expected=cps)
                        break
                    for (n, ident), cp in zip(cs, cps):
                        c = by_path[cp]
                        exp_ident = model.VERDICT_CLASSES[c['cls']][0]
                        classes.append(('case', c['cls'], c['var'], reporter, ident))
                        ok = (ident == exp_ident) if exp_ident is not None else (ident in model.ERROR_IDENTIFIERS)
                        if not ok:
                            bad(reporter, 'case %s (%s/%d) shown as %s, expected %s'
                                % (cp, c['cls'], c['var'], ident, exp_ident or 'an error identifier'),
                                kind='progress_case_ident', case_class=c['cls'], observed=ident)
            shown['progress'] = [n for _, cs in blocks for n, _ in cs]
        else:
            ctx.count('c16.junit_valid_checked')
            tag, suites, problem = parse_junit(r.out)
            classes.append(('valid', reporter, 'depth=%d' % node.depth(), 'suites=%d' % len(enum),
                            'cases=%d' % len(flat), forms, '%s/%s' % (tag, r.rc)))
            if problem:
                bad(reporter, problem, kind='junit_format', observed=r.brief())
                continue
            exp_tag = 'testsuites' if node.subs else 'testsuite'
            if tag != exp_tag:
                bad(reporter, 'root element %r, documented %r (suite %s sub suites)'
                    % (tag, exp_tag, 'with' if node.subs else 'without'), kind='junit_root_tag')
            i = 0
            for sp, cps in enum:
                if i < len(suites) and (denotes(suites[i]['name'], sp) or
                                        denotes(posixpath.join(suites[i]['package'] or '.', suites[i]['name'] or ''),
                                                sp)):
                    js = suites[i]
                    i += 1
                elif not cps:
                    continue  # a suite without cases may be left out
                else:
                    bad(reporter, 'testsuite for %s (cases %r) missing or out of order; testsuites shown: %r'
                        % (sp, cps, [s['name'] for s in suites]), kind='junit_suites',
                        observed=[s['name'] for s in suites])
                    break
                names = [n for n, _ in js['cases']]
                if len(names) != len(cps) or not all(denotes(n, cp) for n, cp in zip(names, cps)):
                    bad(reporter, 'testcases of %s shown as %r, reference %r' % (sp, names, cps), kind='junit_cases',
                        observed=names, expected=cps)
                    continue
                if js['tests'] != str(len(cps)):
                    bad(reporter, 'testsuite %s: tests=%r, number of cases %d' % (sp, js['tests'], len(cps)),
                        kind='junit_tests', observed=js['tests'], expected=len(cps))
                cls_here = [by_path[cp]['cls'] for cp in cps]
                n_unsucc = sum(1 for c in cls_here if not model.is_successful_class(c))
                try:
                    f_e = int(js['failures']) + int(js['errors'])
                except (TypeError, ValueError):
                    f_e = None
                if f_e != n_unsucc:
                    bad(reporter, 'testsuite %s: failures=%r + errors=%r, number of unsuccessful cases %d (%r)'
                        % (sp, js['failures'], js['errors'], n_unsucc, cls_here), kind='junit_failures_plus_errors',
                        observed=f_e, expected=n_unsucc, n_syntax_act_in_suite=cls_here.count('SYNTAX_ACT'),
                        verdict_classes=cls_here)
                n_f = sum(1 for _, ch in js['cases'] if 'failure' in ch)
                n_e = sum(1 for _, ch in js['cases'] if 'error' in ch)
                if f_e is not None and (str(n_f), str(n_e)) != (js['failures'], js['errors']):
                    bad(reporter, 'testsuite %s: failures=%r errors=%r but %d <failure> and %d <error> children'
                        % (sp, js['failures'], js['errors'], n_f, n_e), kind='junit_attributes_vs_children')
                for (n, children), cp in zip(js['cases'], cps):
                    c = by_path[cp]
                    marks = [x for x in children if x in ('failure', 'error')]
                    classes.append(('case', c['cls'], c['var'], reporter, '+'.join(marks) or 'no-child'))
                    if model.is_successful_class(c['cls']):
                        if marks:
                            bad(reporter, 'successful case %s (%s) carries %r' % (cp, c['cls'], marks),
                                kind='junit_successful_with_child', case_class=c['cls'], children=marks)
                    elif not marks:
                        bad(reporter, 'unsuccessful case %s (%s/%d) carries neither <failure> nor <error>'
                            % (cp, c['cls'], c['var']), kind='junit_unsuccessful_without_child', case_class=c['cls'],
                            children=marks)
            if i < len(suites):
                bad(reporter, 'testsuite elements beyond the reference enumeration: %r'
                    % [s['name'] for s in suites[i:]], kind='junit_suites')
            shown['junit'] = [n for s in suites for n, _ in s['cases']]

    if status == 'valid' and 'progress' in shown and 'junit' in shown:
        ctx.count('c16.reporters_compared')
        if shown['progress'] != shown['junit']:
            viol.append({'what': 'C16 [%s] reporters disagree on the cases: progress %r, junit %r'
                                 % (label, shown['progress'], shown['junit']),
                         'detail': {'kind': 'reporters_disagree', 'progress': shown['progress'],
                                    'junit': shown['junit']}})
    # ---- validation of the in-process driver itself: the same runs through a fresh interpreter -------
    if case.get('label') in XCHECK_LABELS and not inconc:
        from vf import driver
        for reporter, (argv, rc1, out1, log1) in sorted(full_obs.items()):
            if os.path.exists(log):
                os.remove(log)
            rc2, out2, _ = driver.run_in_subprocess(argv, cwd_abs, ses.tmpdir)
            log2 = []
            if os.path.exists(log):
                with open(log) as f:
                    log2 = f.read().split()
            ctx.count('c16.subprocess_crosschecks')
            if (rc1, _without_times(out1), log1) != (rc2, _without_times(out2), log2):
                viol.append({'what': 'C16 [%s] %s: in-process driver and `python -c main()` disagree' % (label, reporter),
                             'detail': {'kind': 'driver_crosscheck', 'in_process': [rc1, out1[:1500], log1],
                                        'subprocess': [rc2, out2[:1500], log2]}})
    ses.clean_tmp()
    ses.drop(d)
    res = {'classes': classes, 'viol': viol, 'inconclusive': inconc, 'evaluations': evaluations}
    if case.get('label') in ('appendix-tree:rel:', 'all-classes', 'double:detour', 'SYNTAX_ACT/0/middle',
                             'glob-starstar-star'):
        res['sample'] = {
            'label': case['label'],
            'files': {p: (files[p] if isinstance(files[p], str) else repr(files[p])).replace(d, '<DIR>')
                      for p in sorted(files)},
            'expected': ('INVALID_SUITE, exit 3, nothing executed (%s)' % enum) if status == 'invalid' else
            {'processing order': [list(x) for x in enum],
             'progress final': list(model.expected_progress_final([by_path[cp]['cls'] for _, cps in enum
                                                                   for cp in cps]))},
            'observed': {k: {kk: (vv.replace(d, '<DIR>') if isinstance(vv, str) else vv) for kk, vv in v.items()}
                         for k, v in observed_for_sample.items()},
        }
    return res


XCHECK_LABELS = ('appendix-tree:abs:d2', 'all-classes', 'double:detour', 'syntax:unknown_section:1',
                 'depth3-siblings-interleaved-sections')
_RX_TIMES = re.compile(r'\(\d+(?:\.\d+)?s\)|(?:time|timestamp)="[^"]*"')


def _without_times(out):
    return _RX_TIMES.sub('<T>', out)


def _canon(case, suite_path):
    """Suite path as reached -> key in case['suites'] (only symbolic links differ; valid trees have none listed)."""
    if suite_path in case['suites']:
        return suite_path
    return vfs_of(case).canonical(suite_path)


def _level_of(case, suite_path):
    """Depth (1 = root) of a suite file below the root directory, for class keys only."""
    root_dir = posixpath.dirname(case['root'])
    rel = posixpath.relpath(posixpath.dirname(model.norm(suite_path)) or '.', root_dir or '.')
    return 1 if rel == '.' else 1 + len([c for c in rel.split('/') if c != '..'])
