"""Classifier of known findings.  One named predicate per key; keyed by MECHANISM (input class AND the
predicted defective observation), never by hash/seed.  Only keys listed in known_findings.json with
status "open" suppress anything; "fixed" entries suppress nothing."""
import json
import os

from vf import common

_PREDICATES = {}  # (prop, key) -> function(violation) -> bool


def predicate(prop, key):
    def deco(f):
        _PREDICATES[(prop, key)] = f
        return f

    return deco


_FILE = None


def _load():
    global _FILE
    if _FILE is None:
        if os.path.exists(common.KNOWN_FINDINGS_FILE):
            with open(common.KNOWN_FINDINGS_FILE) as f:
                _FILE = json.load(f)
        else:
            _FILE = {'findings': []}
    return _FILE


def open_keys(prop):
    return [e['key'] for e in _load().get('findings', []) if e.get('property') == prop and e.get('status') == 'open']


def describe(prop, key):
    for e in _load().get('findings', []):
        if e.get('property') == prop and e.get('key') == key:
            return '%s: %s' % (key, e.get('what_fails', ''))
    return key


def _module_predicates(prop):
    """A property module may define KNOWN = {key: predicate(violation) -> bool}."""
    try:
        import importlib
        mod = importlib.import_module('vf.props.' + prop.lower())
        return getattr(mod, 'KNOWN', {})
    except Exception:
        return {}


def classify(prop, violation):
    mp = _module_predicates(prop)
    for key in open_keys(prop):
        p = _PREDICATES.get((prop, key)) or mp.get(key)
        if p is not None:
            try:
                if p(violation):
                    return key
            except Exception:
                pass
    return None


# predicates are registered by the property modules' companions below -----------------------------
from vf import known_predicates  # noqa: E402,F401
