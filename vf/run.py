"""Parent: ./check <Cnn> <quick|thorough> | ./check <Cnn> --replay FILE"""
import json
import os
import shutil
import subprocess
import sys
import tempfile
import time

from vf import common, known

NPROC = min(16, os.cpu_count() or 4)
WORKER_TIMEOUT_S = {'quick': 900, 'thorough': 3 * 3600}
MIN_OBS_FACTOR = 0.5


def main(argv):
    if len(argv) < 2:
        print('usage: check <Cnn> <quick|thorough> | check <Cnn> --replay FILE')
        return 2
    prop = argv[0].upper()
    if argv[1] == '--replay':
        return replay(prop, argv[2])
    tier = argv[1]
    if tier not in ('quick', 'thorough'):
        tier = os.environ.get('VERIF_TIER', 'quick')
    seed = common.seed_from_env()
    from vf import worker
    mod = worker.load(prop)
    from vf import probe
    probe.ensure_probe()
    nshards = int(os.environ.get('VERIF_SHARDS', getattr(mod, 'NSHARDS', NPROC)))
    t0 = time.time()
    tmp = tempfile.mkdtemp(prefix='vf-run-%s-' % prop, dir=common.SCRATCH_BASE)
    procs = []
    try:
        for s in range(nshards):
            out = os.path.join(tmp, 'shard%d.json' % s)
            log = open(os.path.join(tmp, 'shard%d.log' % s), 'wb')
            # the workers' scratch directories live below this run's own directory, so that they are removed with it even
            # if a worker is killed
            wenv = dict(os.environ, VERIF_SCRATCH=tmp)
            p = subprocess.Popen([sys.executable, '-m', 'vf.worker', prop, tier, str(seed), str(s), str(nshards), out],
                                 stdout=log, stderr=subprocess.STDOUT, cwd=common.VERIF_DIR, env=wenv)
            procs.append((s, p, out, log))
        deadline = t0 + WORKER_TIMEOUT_S[tier]
        results = []
        dead = []
        for s, p, out, log in procs:
            try:
                p.wait(timeout=max(1, deadline - time.time()))
            except subprocess.TimeoutExpired:
                p.kill()
                p.wait()
                dead.append('shard %d: watchdog (%ds) expired' % (s, WORKER_TIMEOUT_S[tier]))
                continue
            finally:
                log.close()
            if p.returncode != 0 or not os.path.exists(out):
                with open(os.path.join(tmp, 'shard%d.log' % s), 'rb') as f:
                    tail = f.read()[-1500:].decode('utf-8', 'replace')
                dead.append('shard %d: worker exit %s: %s' % (s, p.returncode, tail))
                continue
            with open(out) as f:
                results.append(json.load(f))
    finally:
        for s, p, out, log in procs:
            if p.poll() is None:
                p.kill()
                p.wait()
        _force_rmtree(tmp)
    return conclude(prop, tier, seed, mod, results, dead, time.time() - t0)


def _force_rmtree(path):
    def onerr(func, p, exc):
        try:
            os.chmod(os.path.dirname(p), 0o700)
            os.chmod(p, 0o700)
            func(p)
        except Exception:
            pass

    shutil.rmtree(path, onerror=onerr)


def _sum_counts(results):
    out = {}
    for r in results:
        for k, n in r.get('known_counts', {}).items():
            out[k] = out.get(k, 0) + n
    return out


def conclude(prop, tier, seed, mod, results, dead, wall):
    evaluations = sum(r['evaluations'] for r in results)
    classes = {}
    monitors = {}
    samples = []
    violations = []
    inconclusive = list(dead)   # structural: a worker died / watchdog on a whole shard / threshold unmet / harness error
    case_inconclusive = []      # single cases whose watchdog fired (not observed; reported, tolerated if isolated)
    m3_notes = []
    case_errors = 0
    for r in results:
        for c, n in r['classes'].items():
            classes[c] = classes.get(c, 0) + n
        for k, v in r['monitors'].items():
            monitors[k] = monitors.get(k, 0) + v
        samples.extend(r['samples'])
        violations.extend(r['violations'])
        for i in r['inconclusive']:
            if isinstance(i, dict) and i.get('why') == 'harness exception':
                inconclusive.append(i)
            else:
                case_inconclusive.append(i)
        m3_notes.extend(r.get('m3_notes', []))
        case_errors += r.get('case_errors', 0)
    samples = samples[:6]

    # --- classify violations ------------------------------------------------------------------
    known_hits = {}
    unknown = []
    for v in violations:
        key = known.classify(prop, v)
        if key is None:
            unknown.append(v)
        else:
            known_hits.setdefault(key, []).append(v)

    # --- minimum observation thresholds -----------------------------------------------------------
    mins = getattr(mod, 'MIN_OBS', {}).get(tier, {})
    for name, minimum in mins.items():
        got = evaluations if name == 'evaluations' else \
            len(classes) if name == 'classes' else monitors.get(name, 0)
        # The declared minimum is what a run was measured to observe, rounded down; the purpose of the threshold is to
        # notice a deciding monitor that is (almost) never reached, not to pin the workload size: half of it suffices,
        # which leaves room for the variation between seeds.
        minimum = max(1, int(minimum * MIN_OBS_FACTOR)) if minimum > 0 else 0
        if got < minimum:
            inconclusive.append('monitor %s observed %d < required %d' % (name, got, minimum))

    n_case_inc = monitors.get('inconclusive_cases', 0) or len(case_inconclusive)
    # isolated inconclusive cases (a watchdog fired on a loaded machine) are not a verdict on the property and do not
    # make the whole run inconclusive; more than a handful does
    if n_case_inc > max(3, evaluations // 500):
        inconclusive.append('%d cases were inconclusive (e.g. %s)' % (n_case_inc, json.dumps(common.jsonable(
            case_inconclusive[:2]))[:600]))
    print('%s %s seed=%d: %d executions, %d distinct classes, %.1fs' % (prop, tier, seed, evaluations,
                                                                           len(classes), wall))
    for k in sorted(monitors):
        print('  monitor %-40s %d' % (k, monitors[k]))

    level = getattr(mod, 'LEVEL', 'exploration')
    ev = {
        'property_id': prop,
        'tier': tier,
        'seed': seed,
        'level': level,
        'coverage': {
            'evaluations': evaluations,
            'distinct_nontrivial': len(classes),
            'rule': getattr(mod, 'RULE', ''),
            'samples': samples if samples else [{'note': 'no sample recorded'}],
            'class_histogram_top': dict(sorted(classes.items(), key=lambda kv: -kv[1])[:25]),
            'monitors': monitors,
            'known_findings_hit': {k: len(v) for k, v in known_hits.items()},
            'known_findings_witnesses': _sum_counts(results),
            'inconclusive': common.jsonable(inconclusive[:10]),
            'inconclusive_cases_not_observed': n_case_inc,
            'inconclusive_cases_sample': common.jsonable(case_inconclusive[:5]),
            'cross_property_m3_notes': m3_notes[:5],
            'harness_case_errors': case_errors,
        },
        'assumptions': getattr(mod, 'ASSUMPTIONS', []),
        'wall_s': round(wall, 2),
        'violations': len(unknown),
    }
    if hasattr(mod, 'EXHAUSTIVE_NOTE'):
        ev['coverage']['exhaustive_core'] = mod.EXHAUSTIVE_NOTE
    if getattr(mod, 'EXHAUSTIVE', False):
        ev['coverage']['exhaustive'] = True
    os.makedirs(common.EVIDENCE_DIR, exist_ok=True)
    evp = os.path.join(common.EVIDENCE_DIR, prop + '.json')
    with open(evp + '.tmp', 'w') as f:
        json.dump(ev, f, indent=1, sort_keys=True)
        f.write('\n')
    os.replace(evp + '.tmp', evp)

    known_counts = {}
    for r in results:
        for k, n in r.get('known_counts', {}).items():
            known_counts[k] = known_counts.get(k, 0) + n
    for key in sorted(known_hits):
        print('KNOWN-FINDING: property=%s %s (%d witnesses this run)' % (prop, known.describe(prop, key),
                                                                          max(len(known_hits[key]),
                                                                              known_counts.get(key, 0))))
    rdir = os.path.join(common.OUT_DIR, 'replay', prop)
    if os.path.isdir(rdir) and 'VERIF_KEEP_REPLAYS' not in os.environ:
        shutil.rmtree(rdir, ignore_errors=True)  # witnesses of earlier runs would only confuse
    if unknown:
        os.makedirs(rdir, exist_ok=True)
        seen = set()
        for v in unknown:
            h = common.sha(v['case'])
            if h in seen:
                continue
            seen.add(h)
            path = os.path.join(rdir, h + '.json')
            with open(path, 'w') as f:
                json.dump({'property': prop, 'tier': tier, 'seed': seed, 'case': v['case'], 'what': v['what'],
                           'detail': v['detail']}, f, indent=1)
            if len(seen) <= 15:
                print('VIOLATION property=%s replay=%s' % (prop, path))
                print('   what: %s' % v['what'][:300])
        print('%d violation witnesses (%d distinct cases)' % (len(unknown), len(seen)))
        return common.EXIT_VIOLATION
    if inconclusive:
        for i in inconclusive[:10]:
            print('INCONCLUSIVE property=%s reason=%s' % (prop, json.dumps(common.jsonable(i))[:1500]))
        return common.EXIT_INCONCLUSIVE
    if n_case_inc:
        print('NOT-OBSERVED property=%s %d isolated cases were inconclusive (watchdog) and are not part of the verdict'
              % (prop, n_case_inc))
    print('HELD property=%s on everything observed' % prop)
    return common.EXIT_HELD


def replay(prop, path):
    with open(path) as f:
        rec = json.load(f)
    from vf import worker, probe
    probe.ensure_probe()
    mod = worker.load(prop)
    scratch = tempfile.mkdtemp(prefix='vf-replay-', dir=common.SCRATCH_BASE)
    os.chdir(scratch)
    try:
        ctx = worker.Ctx(prop, rec.get('tier', 'quick'), rec.get('seed', 0), 0, 1, scratch)
        agg = worker.run_cases(mod, ctx, [rec['case']])
    finally:
        os.chdir('/')
        shutil.rmtree(scratch, ignore_errors=True)
    print(json.dumps(agg, indent=1)[:6000])
    unknown = [v for v in agg['violations'] if known.classify(prop, v) is None]
    for v in agg['violations']:
        k = known.classify(prop, v)
        if k is not None:
            print('KNOWN-FINDING: property=%s %s' % (prop, known.describe(prop, k)))
    if unknown:
        print('VIOLATION property=%s replay=%s' % (prop, path))
        return common.EXIT_VIOLATION
    if agg['inconclusive']:
        return common.EXIT_INCONCLUSIVE
    return common.EXIT_HELD


if __name__ == '__main__':
    sys.exit(main(sys.argv[1:]))
