"""D1: drive the real CLI entry object in process, under monitors M1 (audit), M2 (subprocess.call
boundary) and M3 (outcome table).  Imported only in worker processes."""
import os
import shutil
import signal
import subprocess
import sys
import tempfile
import traceback

from vf import common

common.put_repo_first_on_path()

# ---------------------------------------------------------------------------------------------
# Hard-coded documented outcome table (NOT derived from exit_values.py)
# ---------------------------------------------------------------------------------------------
OUTCOME_TABLE = {
    'PASS': 0,
    'SKIPPED': 0,
    'FAIL': 32,
    'XFAIL': 33,
    'XPASS': 33,
    'SYNTAX_ERROR': 65,
    'FILE_ACCESS_ERROR': 65,
    'PRE_PROCESS_ERROR': 65,
    'VALIDATION_ERROR': 65,
    'HARD_ERROR': 128,
    'INTERNAL_ERROR': 129,
}
USAGE_ERROR_CODE = 64
NO_EXECUTION_IDENTS = ('SYNTAX_ERROR', 'FILE_ACCESS_ERROR', 'PRE_PROCESS_ERROR', 'VALIDATION_ERROR')


class WatchdogTimeout(BaseException):
    pass


def _on_alarm(signum, frame):
    raise WatchdogTimeout()


# ---------------------------------------------------------------------------------------------
# M1 audit recorder
# ---------------------------------------------------------------------------------------------
_AUDIT_ON = False
_AUDIT_EVENTS = []
_AUDIT_INSTALLED = False
_WRITE_FLAGS = os.O_WRONLY | os.O_RDWR | os.O_APPEND | os.O_CREAT | os.O_TRUNC

_AUDIT_NAMES = {
    'os.mkdir', 'tempfile.mkdtemp', 'tempfile.mkstemp', 'os.chdir', 'os.putenv', 'os.unsetenv',
    'os.remove', 'os.rename', 'os.rmdir', 'os.symlink', 'os.chmod', 'os.link', 'os.truncate',
    'shutil.rmtree', 'shutil.copyfile', 'shutil.copytree', 'shutil.move', 'shutil.copymode', 'shutil.copystat',
    'subprocess.Popen', 'os.system', 'os.exec', 'os.posix_spawn', 'os.fork', 'os.utime', 'os.chown',
}


def _audit_hook(event, args):
    if not _AUDIT_ON:
        return
    if event == 'open':
        path, mode, flags = args
        is_write = False
        if isinstance(mode, str) and any(c in mode for c in 'wax+'):
            is_write = True
        elif mode is None and isinstance(flags, int) and (flags & _WRITE_FLAGS):
            is_write = True
        elif isinstance(flags, int) and (flags & (os.O_WRONLY | os.O_RDWR | os.O_CREAT | os.O_TRUNC | os.O_APPEND)):
            is_write = True
        if is_write:
            _AUDIT_EVENTS.append(('open-w', _s(path), str(mode)))
        return
    if event in _AUDIT_NAMES:
        _AUDIT_EVENTS.append((event,) + tuple(_s(a) for a in args[:3]))


def _s(x):
    if isinstance(x, bytes):
        return x.decode('utf-8', 'replace')
    if isinstance(x, (str, int)) or x is None:
        return x
    try:
        return os.fspath(x)
    except TypeError:
        return repr(x)[:200]


def install_audit():
    global _AUDIT_INSTALLED
    if not _AUDIT_INSTALLED:
        sys.addaudithook(_audit_hook)
        _AUDIT_INSTALLED = True


# ---------------------------------------------------------------------------------------------
# M2 process boundary recorder
# ---------------------------------------------------------------------------------------------
_REAL_CALL = subprocess.call
_CALLS_ON = False
_CALLS = []
M2_OVERRIDE = None  # optional function(record) -> None | int : if int, child is NOT started and int is returned


def _recording_call(*popenargs, timeout=None, **kwargs):
    if _CALLS_ON:
        args = popenargs[0] if popenargs else kwargs.get('args')
        env = kwargs.get('env')
        stdin = kwargs.get('stdin')
        rec = {
            'args': list(args) if isinstance(args, (list, tuple)) else args,
            'args_type': type(args).__name__,
            'shell': bool(kwargs.get('shell', False)),
            'timeout': timeout,
            'env': None if env is None else dict(env),
            'env_is_os_environ': env is os.environ,
            'cwd': os.getcwd(),
            'cwd_kw': kwargs.get('cwd'),
            'stdin_kind': ('none' if stdin is None else
                           'devnull' if stdin == subprocess.DEVNULL else
                           'int' if isinstance(stdin, int) else 'file'),
        }
        _CALLS.append(rec)
        if M2_OVERRIDE is not None:
            r = M2_OVERRIDE(rec)
            if r is not None:
                return r
    return _REAL_CALL(*popenargs, timeout=timeout, **kwargs)


def install_call_recorder():
    if subprocess.call is not _recording_call:
        subprocess.call = _recording_call


# ---------------------------------------------------------------------------------------------
# M3 outcome table monitor
# ---------------------------------------------------------------------------------------------
def first_line(s: str) -> str:
    return s.split('\n', 1)[0] if s else ''


def check_outcome_table(mode: str, rc: int, out: str, err: str) -> list:
    """mode: 'normal' | 'keep' | 'act'.  Returns a list of problems (empty = consistent with the documented table).
    For mode 'act' only the non-completed form can be judged generically (identifier on stderr)."""
    problems = []
    if mode == 'normal':
        if rc == USAGE_ERROR_CODE:
            if out != '':
                problems.append('exit 64 but stdout not empty: %r' % out[:80])
            return problems
        lines = out.split('\n')
        if not out.endswith('\n') or len(lines) != 2:
            problems.append('stdout is not exactly one identifier line: %r' % out[:120])
            return problems
        ident = lines[0]
        if ident not in OUTCOME_TABLE:
            problems.append('unknown identifier %r' % ident)
        elif OUTCOME_TABLE[ident] != rc:
            problems.append('identifier %s with exit code %d (documented %d)' % (ident, rc, OUTCOME_TABLE[ident]))
    elif mode == 'keep':
        if rc == USAGE_ERROR_CODE:
            return problems
        ident = first_line(err)
        if ident not in OUTCOME_TABLE:
            problems.append('first stderr line is not an identifier: %r' % ident[:80])
        elif OUTCOME_TABLE[ident] != rc:
            problems.append('identifier %s with exit code %d (documented %d)' % (ident, rc, OUTCOME_TABLE[ident]))
        if out != '':
            if not out.endswith('\n') or out.count('\n') != 1:
                problems.append('--keep stdout is not a single path line: %r' % out[:120])
    return problems


# ---------------------------------------------------------------------------------------------
class RunResult:
    __slots__ = ('argv', 'rc', 'out', 'err', 'out_b', 'err_b', 'exc', 'audit', 'calls', 'cwd_before', 'cwd_after',
                 'env_before', 'env_after', 'leaked_tmp', 'timed_out', 'new_tmp_entries')

    def ident(self) -> str:
        return first_line(self.out)

    def brief(self) -> dict:
        return {'argv': self.argv, 'rc': self.rc, 'out': self.out[:400], 'err': self.err[:1200],
                'exc': self.exc}


class Session:
    """One per worker process."""

    def __init__(self, scratch: str):
        self.scratch = scratch
        self.tmpdir = os.path.join(scratch, 'tmp')
        self.cases_dir = os.path.join(scratch, 'cases')
        self.io_dir = os.path.join(scratch, 'io')
        for d in (self.tmpdir, self.cases_dir, self.io_dir):
            os.makedirs(d, exist_ok=True)
        os.environ['TMPDIR'] = self.tmpdir
        tempfile.tempdir = self.tmpdir
        self._mps = {}
        self._n = 0
        self.stats = {'runs': 0, 'm3_observations': 0, 'm3_mismatches': 0, 'escaped_exceptions': 0,
                      'env_or_cwd_changed': 0}
        self.m3_notes = []
        install_audit()
        install_call_recorder()
        signal.signal(signal.SIGALRM, _on_alarm)

    # -- construction of the real main program -------------------------------------------------
    def main_program(self, mem_buff_size=None, timeout_default=None):
        key = (mem_buff_size, timeout_default)
        if key not in self._mps:
            import io
            from exactly_lib import program_info
            from exactly_lib.cli import main_program
            from exactly_lib.cli.test_case_def import TestCaseDefinitionForMainProgram
            from exactly_lib.cli_default.program_modes import test_suite
            from exactly_lib.cli_default.program_modes.test_case import builtin_symbols, \
                default_instructions_setup, test_case_handling_setup
            from exactly_lib.common import instruction_name_and_argument_splitter
            from exactly_lib.execution import sandbox_dir_resolving
            from exactly_lib.processing.instruction_setup import TestCaseParsingSetup
            from exactly_lib.processing.parse.act_phase_source_parser import ActPhaseParser
            self._mps[key] = main_program.MainProgram(
                test_case_handling_setup.setup(),
                sandbox_dir_resolving.mk_tmp_dir_with_prefix(program_info.PROGRAM_NAME + '-'),
                TestCaseDefinitionForMainProgram(
                    TestCaseParsingSetup(instruction_name_and_argument_splitter.splitter,
                                         default_instructions_setup.INSTRUCTIONS_SETUP,
                                         ActPhaseParser()),
                    builtin_symbols.ALL,
                ),
                test_suite.test_suite_definition(),
                io.DEFAULT_BUFFER_SIZE if mem_buff_size is None else mem_buff_size)
        return self._mps[key]

    # -- case directories ----------------------------------------------------------------------
    def new_case_dir(self, files: dict = None) -> str:
        self._n += 1
        d = os.path.join(self.cases_dir, 'c%06d' % self._n)
        os.makedirs(d)
        if files:
            write_files(d, files)
        return d

    def drop(self, d: str):
        force_rmtree(d)

    def clean_tmp(self):
        for n in os.listdir(self.tmpdir):
            force_rmtree(os.path.join(self.tmpdir, n))

    # -- the run -------------------------------------------------------------------------------
    def run(self, argv, cwd=None, mem_buff_size=None, watchdog_s=60, mode=None, m3=True) -> RunResult:
        """Executes MainProgram.execute(argv, StdOutputFiles(real files)) with monitors on.
        cwd: directory to chdir to before the call (restored afterwards by the driver itself *after*
        the after-state has been recorded)."""
        global _AUDIT_ON, _CALLS_ON
        from exactly_lib.util.file_utils.std import StdOutputFiles
        if mem_buff_size is None:
            mem_buff_size = getattr(self, 'default_mem_buff_size', None)
        mp = self.main_program(mem_buff_size)
        res = RunResult()
        res.argv = list(argv)
        res.exc = None
        res.timed_out = False
        self.stats['runs'] += 1
        out_path = os.path.join(self.io_dir, 'out')
        err_path = os.path.join(self.io_dir, 'err')
        drv_cwd = os.getcwd()
        if cwd is not None:
            os.chdir(cwd)
        tmp_before = set(os.listdir(self.tmpdir))
        with open(out_path, 'w+', encoding='utf-8', newline='') as fo, \
                open(err_path, 'w+', encoding='utf-8', newline='') as fe:
            res.cwd_before = os.getcwd()
            res.env_before = dict(os.environ)
            del _AUDIT_EVENTS[:]
            del _CALLS[:]
            signal.setitimer(signal.ITIMER_REAL, watchdog_s)
            _AUDIT_ON = True
            _CALLS_ON = True
            try:
                res.rc = mp.execute(list(argv), StdOutputFiles(fo, fe))
            except WatchdogTimeout:
                res.rc = None
                res.timed_out = True
            except SystemExit as ex:
                res.rc = None
                res.exc = 'SystemExit(%r)' % (ex.code,)
            except BaseException:
                res.rc = None
                res.exc = traceback.format_exc()
            finally:
                _AUDIT_ON = False
                _CALLS_ON = False
                signal.setitimer(signal.ITIMER_REAL, 0)
            res.audit = list(_AUDIT_EVENTS)
            res.calls = list(_CALLS)
            try:
                res.cwd_after = os.getcwd()
            except OSError:
                res.cwd_after = None
            res.env_after = dict(os.environ)
            try:
                fo.flush()
                fe.flush()
            except Exception:
                pass
        with open(out_path, 'rb') as f:
            res.out_b = f.read()
        with open(err_path, 'rb') as f:
            res.err_b = f.read()
        res.out = res.out_b.decode('utf-8', 'replace')
        res.err = res.err_b.decode('utf-8', 'replace')
        tmp_after = set(os.listdir(self.tmpdir))
        res.new_tmp_entries = sorted(tmp_after - tmp_before)
        res.leaked_tmp = res.new_tmp_entries
        os.chdir(drv_cwd)
        if res.exc is not None:
            self.stats['escaped_exceptions'] += 1
        if res.cwd_after != res.cwd_before or res.env_after != res.env_before:
            self.stats['env_or_cwd_changed'] += 1
            # restore so that later cases are not disturbed
            os.environ.clear()
            os.environ.update(res.env_before)
        if m3 and mode in ('normal', 'keep') and res.rc is not None:
            self.stats['m3_observations'] += 1
            pr = check_outcome_table(mode, res.rc, res.out, res.err)
            if pr:
                self.stats['m3_mismatches'] += 1
                if len(self.m3_notes) < 5:
                    self.m3_notes.append({'argv': res.argv, 'problems': pr})
        return res

    def run_case_text(self, text, files=None, extra_argv=(), name='t.case', **kw):
        """Convenience: writes `text` as NAME in a fresh case dir (plus `files`), runs `exactly [extra] NAME`
        with the case dir as cwd. Returns (RunResult, case_dir).  Caller drops the dir."""
        fs = dict(files or {})
        fs[name] = text
        d = self.new_case_dir(fs)
        mode = kw.pop('mode', None)
        if mode is None:
            mode = 'keep' if '--keep' in extra_argv else 'act' if '--act' in extra_argv else 'normal'
        r = self.run(list(extra_argv) + [os.path.join(d, name)], cwd=d, mode=mode, **kw)
        return r, d


def run_in_subprocess(argv, cwd, tmpdir, timeout=120):
    """Validation of the driver itself: the same argv through a fresh interpreter."""
    code = ('import sys; sys.path.insert(0, %r); '
            'from exactly_lib.cli_default.default_main_program_setup import main; sys.exit(main())' % common.REPO_SRC)
    env = dict(os.environ)
    env['TMPDIR'] = tmpdir
    p = subprocess.run([sys.executable, '-c', code] + list(argv), cwd=cwd, env=env,
                       stdout=subprocess.PIPE, stderr=subprocess.PIPE, timeout=timeout)
    return p.returncode, p.stdout.decode('utf-8', 'replace'), p.stderr.decode('utf-8', 'replace')


# ---------------------------------------------------------------------------------------------
def write_files(root: str, files: dict):
    """files: relpath -> str | bytes | ('dir',) | ('symlink', target) | ('exe', text)"""
    for rel, content in files.items():
        p = os.path.join(root, rel)
        os.makedirs(os.path.dirname(p), exist_ok=True)
        if isinstance(content, tuple) or isinstance(content, list):
            kind = content[0]
            if kind == 'dir':
                os.makedirs(p, exist_ok=True)
            elif kind == 'symlink':
                os.symlink(content[1], p)
            elif kind == 'exe':
                with open(p, 'w', encoding='utf-8', newline='') as f:
                    f.write(content[1])
                os.chmod(p, 0o755)
            elif kind == 'bytes':
                with open(p, 'wb') as f:
                    f.write(bytes.fromhex(content[1]))
            else:
                raise ValueError(kind)
        elif isinstance(content, bytes):
            with open(p, 'wb') as f:
                f.write(content)
        else:
            with open(p, 'w', encoding='utf-8', newline='') as f:
                f.write(content)


def force_rmtree(p: str):
    if os.path.islink(p) or os.path.isfile(p):
        try:
            os.remove(p)
        except OSError:
            pass
        return
    if not os.path.isdir(p):
        return

    def onerr(func, path, exc):
        try:
            os.chmod(os.path.dirname(path), 0o700)
            os.chmod(path, 0o700)
            func(path)
        except Exception:
            pass

    shutil.rmtree(p, onerror=onerr)


def snapshot_tree(root: str) -> dict:
    """relpath -> (type, size, sha1 | link target)."""
    import hashlib
    snap = {}
    if not os.path.lexists(root):
        return snap
    for dirpath, dirnames, filenames in os.walk(root):
        for n in dirnames + filenames:
            p = os.path.join(dirpath, n)
            rel = os.path.relpath(p, root)
            if os.path.islink(p):
                snap[rel] = ('l', os.readlink(p))
            elif os.path.isdir(p):
                snap[rel] = ('d',)
            else:
                try:
                    with open(p, 'rb') as f:
                        b = f.read()
                    snap[rel] = ('f', len(b), hashlib.sha1(b).hexdigest())
                except OSError as ex:
                    snap[rel] = ('f', 'unreadable', str(ex))
    return snap
