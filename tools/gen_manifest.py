#!/usr/bin/env python3
"""Regenerates /verif/MANIFEST.json from the table below (kept in one place so it stays valid)."""
import json, os, sys
HERE = os.path.dirname(os.path.dirname(os.path.abspath(__file__)))
sys.path.insert(0, HERE)
from tools.manifest_table import CHECKS, NOT_APPLICABLE, HOOK_COMMITS

ALL = ['C%02d' % i for i in range(1, 21)]
checks = []
for pid in ALL:
    if pid not in CHECKS:
        continue
    c = CHECKS[pid]
    checks.append({
        'property_id': pid,
        'quick_cmd': './check %s quick' % pid,
        'thorough_cmd': './check %s thorough' % pid,
        'evidence_file': 'evidence/%s.json' % pid,
        'replay_cmd_template': './check %s --replay {path}' % pid,
        'engine': 'vf',
        'level_claimed': {'category': c['category'], 'text': c['text'], 'design_ref': 'DESIGN.md §3 ' + pid},
        'level_note': c['note'],
        'technique': c['technique'],
    })
na = [{'property_id': p, 'reason': NOT_APPLICABLE.get(p, 'check not yet built in this round (runtime monitoring applies; see DESIGN.md §3)')}
      for p in ALL if p not in CHECKS]
m = {
    'version': 1,
    'setup_cmd': '/venv/bin/python -m vf.setup',
    'hooks': {
        'guard': 'EXACTLY_VERIF',
        'enable': 'no build step: the checks import /repo/src from the working tree; EXACTLY_VERIF=1 (set by ./check) '
                  'switches on harness-side wrappers (monitors attached from /verif to the real functions) and any '
                  'guarded hook in the sources',
        'baseline_off_cmd': 'cd /repo && env -u EXACTLY_VERIF /venv/bin/python -m pytest -ra -q -p no:cacheprovider '
                            '--timeout=900 --continue-on-collection-errors',
        'source_commits': HOOK_COMMITS,
        'add_only': True,
    },
    'engines': [{'name': 'vf', 'path': 'vf/', 'serves_properties': [c['property_id'] for c in checks],
                 'kind_free_text': 'runtime monitoring: real CLI / executor driven in-process on generated workloads; '
                                   'audit-hook, process-boundary, contract and trace monitors; offline oracles'}],
    'checks': checks,
    'notes': 'Exit codes of every check: 0 held on everything observed (and every deciding monitor reached its minimum), '
             '1 VIOLATION, 2 INCONCLUSIVE. Known findings: known_findings.json. See DESIGN.md.',
    'not_applicable': na,
}
with open(os.path.join(HERE, 'MANIFEST.json'), 'w') as f:
    json.dump(m, f, indent=1)
    f.write('\n')
print('MANIFEST.json: %d checks, %d not_applicable' % (len(checks), len(na)))
