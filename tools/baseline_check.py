#!/usr/bin/env python3
"""Runs the pinned pytest baseline (guard OFF) on a repo tree and compares the set of passing tests with
BASELINE.json's stable_pass.   usage: baseline_check.py [REPO_DIR]"""
import json, os, subprocess, sys, tempfile, xml.etree.ElementTree as ET
repo = sys.argv[1] if len(sys.argv) > 1 else '/repo'
base = json.load(open('/root/.vp/BASELINE.json'))
fd, xmlp = tempfile.mkstemp(suffix='.xml', dir='/var/tmp'); os.close(fd)
env = {k: v for k, v in os.environ.items() if k != 'EXACTLY_VERIF'}
subprocess.run(['/venv/bin/python', '-m', 'pytest', '-ra', '-q', '-p', 'no:cacheprovider', '--timeout=900',
                '--continue-on-collection-errors', '--junitxml=' + xmlp], cwd=repo, env=env,
               stdout=subprocess.DEVNULL, stderr=subprocess.DEVNULL)
passed = set()
for tc in ET.parse(xmlp).getroot().iter('testcase'):
    if not any(ch.tag in ('failure', 'error', 'skipped') for ch in tc):
        passed.add('%s::%s' % (tc.get('classname'), tc.get('name')))
os.remove(xmlp)
stable = set(base['stable_pass'])
missing = sorted(stable - passed)
print('passed now: %d; stable_pass in baseline: %d; baseline tests not passing now: %d' % (len(passed), len(stable), len(missing)))
for m in missing[:20]:
    print('  MISSING', m)
sys.exit(1 if missing else 0)
