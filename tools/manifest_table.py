HOOK_COMMITS = []
NOT_APPLICABLE = {}
_TB = ('trusts: CPython, the OS, the hard-coded oracle tables in vf/ (written from the reference manual), '
       'the in-process driver (cross-checked against a fresh interpreter on a sample of cases)')
CHECKS = {
    'C02': {
        'category': 'exploration',
        'technique': 'runtime monitoring: exhaustive scenario x status x mode table through the real CLI, outcome-table monitor',
        'text': 'Every (ending scenario x configured status x output mode) cell is executed through the real MainProgram with '
                'several action exit codes/outputs; the observed (identifier, exit code, stream) triple is compared with the '
                'documented table hard-coded in the harness. Held = on every executed cell; nothing is claimed for scenarios '
                'outside the 21 endings.',
        'note': _TB,
    },
}
