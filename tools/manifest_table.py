HOOK_COMMITS = []
NOT_APPLICABLE = {}
_TB = ('trusts: CPython, the OS, the hard-coded oracle tables in vf/ (written from the reference manual), '
       'the in-process driver (cross-checked against a fresh interpreter on a sample of cases)')
CHECKS = {
    'C02': {
        'category': 'exploration',
        'technique': 'runtime monitoring: exhaustive scenario x status x mode table through the real CLI, outcome-table monitor',
        'text': 'Every (ending scenario x configured status x output mode) cell is executed through the real MainProgram with '
                'several action exit codes/outputs; the observed (identifier, exit code, stream) triple is compared with the '
                'documented table hard-coded in the harness. Held = on every executed cell; nothing is claimed for scenarios '
                'outside the 21 endings.',
        'note': _TB,
    },
    'C01': {
        'category': 'fault_enumeration',
        'technique': 'runtime monitoring: recorded call trace of stub instructions through the real executor, offline trace-predicate checker, exhaustive fault plans',
        'text': 'Stub instructions and a stub actor are run through the public full_execution.execute under every fault plan '
                '(failing step x position x kind, singly and combined with a failing cleanup instruction, n<=2 exhaustively; '
                'n=3 and random multi-fault plans in thorough) x status x {normal, act-only}. The recorded event trace and the '
                'result are judged by six independent trace predicates (validation-before-main, order, halt, cleanup exactly '
                'once with the right previous phase, outcome names earliest failing or cleanup step with its kind, SKIP).',
        'note': _TB + '; stubs subclass the public instruction classes, so real instructions that misreport their own results are out of scope',
    },
    'C04': {
        'category': 'fault_enumeration',
        'technique': 'runtime monitoring: state snapshots at every step event (stub executor runs) and around real CLI runs; audit-hook monitor for environment changes',
        'text': 'Every single fault plan (n<=2) x keep is executed with stubs that snapshot sandbox layout, cwd, tmp/ and result/ at '
                'every step; after return sandbox removal / retention, cwd, os.environ and putenv audit events are checked. '
                'Real CLI runs of generated cases with cd/env/chmod/tree disturbances x 10 endings x --keep repeat the '
                'after-return and result/-contents checks on real instructions.',
        'note': _TB + '; root user: read-only directories cannot obstruct removal here',
    },
}
