HOOK_COMMITS = []
NOT_APPLICABLE = {}
_TB = ('trusts: CPython, the OS, the hard-coded oracle tables in vf/ (written from the reference manual), '
       'the in-process driver (cross-checked against a fresh interpreter on a sample of cases)')
CHECKS = {
    'C02': {
        'category': 'exploration',
        'technique': 'runtime monitoring: exhaustive scenario x status x mode table through the real CLI, outcome-table monitor',
        'text': 'Every (ending scenario x configured status x output mode) cell is executed through the real MainProgram with '
                'several action exit codes/outputs; the observed (identifier, exit code, stream) triple is compared with the '
                'documented table hard-coded in the harness. Held = on every executed cell; nothing is claimed for scenarios '
                'outside the 21 endings.'
                ' Added: a failing assertion followed by an error in [cleanup] (documented: an error, not a failed test).'
                ' Every third case is started from a directory that is not an ancestor of the case file; case file names that cannot be read (symbolic link loop, below a regular file).',
        'note': _TB,
    },
    'C01': {
        'category': 'fault_enumeration',
        'technique': 'runtime monitoring: recorded call trace of stub instructions through the real executor, offline trace-predicate checker, exhaustive fault plans',
        'text': 'Stub instructions and a stub actor are run through the public full_execution.execute under every fault plan '
                '(failing step x position x kind, singly and combined with a failing cleanup instruction, n<=2 exhaustively; '
                'n=3 and random multi-fault plans in thorough) x status x {normal, act-only}. The recorded event trace and the '
                'result are judged by six independent trace predicates (validation-before-main, order, halt, cleanup exactly '
                'once with the right previous phase, outcome names earliest failing or cleanup step with its kind, SKIP).'
                ' Symbol-validation faults also through definitions (value refers to an undefined symbol, name defined twice, reference violating its type restriction).',
        'note': _TB + '; stubs subclass the public instruction classes, so real instructions that misreport their own results are out of scope',
    },
    'C04': {
        'category': 'fault_enumeration',
        'technique': 'runtime monitoring: state snapshots at every step event (stub executor runs) and around real CLI runs; audit-hook monitor for environment changes',
        'text': 'Every single fault plan (n<=2) x keep is executed with stubs that snapshot sandbox layout, cwd, tmp/ and result/ at '
                'every step; after return sandbox removal / retention, cwd, os.environ and putenv audit events are checked. '
                'Real CLI runs of generated cases with cd/env/chmod/tree disturbances x 10 endings x --keep repeat the '
                'after-return and result/-contents checks on real instructions.'
                ' Also: the directory Exactly was started in removed during the run.'
                ' Part `minimal`: minimal cases x --keep x --preprocessor x start directory elsewhere.',
        'note': _TB + '; root user: read-only directories cannot obstruct removal here',
    },
    'C13': {
        'category': 'exploration',
        'technique': 'runtime monitoring: in-situ contract on interval_of_matcher (accepted line numbers lie in the returned interval) + boundary comparison of filter output with per-line reference evaluation',
        'text': 'All line-matcher trees of depth<=2 over line-num comparisons (both matcher levels, with negations), contents matchers and '
                'constants x texts of 0,1,3,6 lines, all single ranges and pairs of ranges, plus seeded deeper trees and range lists, are run '
                'through the real `filter` transformer (20 per test case); each output is compared with per-line evaluation by an '
                'independent evaluator, and inside every run the contract M5 checks the read-ahead interval against the real matcher object.',
        'note': _TB + '; line texts from {a,b,c}; precedence/layout left to C06',
    },
    'C16': {
        'category': 'exploration',
        'technique': 'runtime monitoring: execution log written by the generated cases + reporter output parsers, checked offline against a reference enumeration',
        'text': 'Generated suite hierarchies (all 11 verdict classes at 5 positions, 82 invalid-suite trees, ordering trees, seeded random trees) '
                'are run through the real CLI with both reporters; the log of executed cases, exit code, progress events and JUnit XML are '
                'compared with a reference model of enumeration order, validity and success classification.'
                ' Quoted entries holding pattern characters or spaces are plain file names.'
                ' Also: links beside their target, one glob matching a directory and its default suite file, cases outside the tree of the root suite, listed names that cannot exist.',
        'note': _TB + '; bracket globs, dot-files, symlinked suites used validly and absolute entries are left out (see evidence assumptions)',
    },
    'C20': {
        'category': 'exploration',
        'technique': 'runtime monitoring: complete enumeration of help requests and parser probes through the real CLI; set equality between parser-accepted names, help listings and rendered pages; HTML anchor checker',
        'text': 'Complete enumeration (419 cases, exhaustive, seed independent): every (phase, instruction), suite (section, instruction), '
                'entity of every entity type, builtin symbol and every internal href of the HTML manual. Three independently observed '
                'sets (names the parser accepts, names the listings print, names whose page renders) must be equal; every href must hit '
                'exactly one id.'
                ' Kind `width`: help pages under every state of COLUMNS / LINES.',
        'note': _TB + '; for instructions a suite section takes over from a phase, the phase page counts as the help entry',
    },
    'C07': {
        'category': 'exploration',
        'technique': 'runtime monitoring: generated documents with known structure through the real parser API and CLI; class invariant (M6) on ParseSource; execution-log comparison over all permutations of phase blocks',
        'text': 'All documents of <=3 lines over 9 line kinds plus seeded documents (inclusion depth <=3, multi-line instructions, descriptions, '
                'escaped act lines) are parsed by new_parser(...).apply and compared element by element (phase, first line, source lines, '
                'file, including chain, description) with their generating structure; documents are executed in every admissible '
                'permutation of their phase blocks and the execution log compared with the reference order; planted defects must be '
                'reported with file, line, text and chain; cycles/unknown phases must be errors. ParseSource invariant checked after '
                'every mutation of every ParseSource object.'
                ' [act] declared several times is also EXECUTED (source actor); inclusion cycles back to the root file are checked with the located chain.'
                ' Includes of symbolic-link loops and dangling links.',
        'note': _TB + '; only complete instructions are generated (an incomplete one may absorb following lines: outside the quantifier)',
    },
    'C12': {
        'category': 'exploration',
        'technique': 'runtime monitoring: probe-rendered paths vs a relativity-root table; audit-hook and snapshot monitors on the home directories',
        'text': 'Every relativity x suffix shape x chains of path definitions (depth<=2 exhaustively, 1566 chains) is rendered through a probe at '
                'use points separated by cd instructions and compared with root+suffix (cd at time of use); every creating instruction form x '
                'relativity/symbol chain is run and must be rejected/accepted as documented while snapshots and audit events show the home '
                'directories untouched.'
                ' Also: path symbols reaching a suffix through 1-4 string definitions; a leading path-symbol reference followed by a suffix with an absolute part.'
                ' Kind H: -rel-here under nested inclusion and relative suite / case paths.',
        'note': _TB + '; `..`/symlinks not generated; three open known findings about absolute path parts (doc/BUGS.rst)',
    },
    'C17': {
        'category': 'exploration',
        'technique': 'runtime monitoring: probe records and M2 timeout records of observer cases after setter cases in all permutations; three-way agreement of ways to run a case',
        'text': 'Lists of <=4 setter/observer cases are run alone and as a suite in all permutations; observers must see the documented '
                'defaults and the same records in every order; each case is run inside the suite, with --suite and beside exactly.suite and '
                'must produce the same identifier and probe sequence, which must also equal the model of suite contents (suite first, '
                'cleanup last, direct cases only) for all 128 subsets of suite contents.'
                ' Also: case files that are symbolic links into another directory; shared suite contents with compositions (|, &&, ||, !) and with symbol values that are ill-formed in one case / in all cases.'
                ' Every seventh tree gives the actor on the command line of every way of running.',
        'note': _TB,
    },
    'C19': {
        'category': 'fault_enumeration',
        'technique': 'runtime monitoring: process-boundary monitor (timeout handed to the OS at every subprocess.call) + real kills with pid liveness and marker-file observations',
        'text': 'A catalogue of 57 places where a process can be started x program form x timeout history: every subprocess.call must carry '
                'the timeout in force at that instruction (no waiting, exhaustive). Real kills: timeout=1 with a child that would sleep '
                '30 s must give HARD_ERROR in the phase of use, cleanup marker present, sandbox removed, child pid dead and its finished '
                'marker absent; early-exiting children must not be reported; decided on logical facts, never on wall-clock.'
                ' Part F: timeout histories around a failing step ([cleanup] runs under the timeout in force at the failure).'
                ' Negated matcher places.',
        'note': _TB + '; only the process Exactly itself starts; the preprocessor (no timeout) is outside the quantifier',
    },
    'C03': {
        'category': 'exploration',
        'technique': 'runtime monitoring: effect monitors (audit events, process-boundary records, marker files, probe records, tree snapshots) around cases with one planted defect, with a positive control',
        'text': 'A valid effectful base case gets exactly one defective instruction (168 spellings of the ten defect classes + missing include) '
                'at every phase and position (k<=2 exhaustively); the run must end 65 with the documented identifier and produce no effect '
                'event at all; `exactly symbol FILE` on the same file must execute nothing; the same case without the defect (control) '
                'must produce every marker, a Popen event and a sandbox, otherwise the case is inconclusive.'
                ' Defect spellings include definitions that refer to the symbol they define.'
                ' Also names that exist only as dangling symbolic links.',
        'note': _TB + '; instructions lacking their mandatory last argument (which absorb the next line) are outside the quantifier',
    },
    'C06': {
        'category': 'exploration',
        'technique': 'runtime monitoring: generated expression trees rendered with hostile permitted layout through every host instruction; value and probe-written evaluation trace compared with the generating tree; independent recogniser for malformed input',
        'text': 'All trees with <=3 leaves x truth assignments x {minimal, full} parentheses in five matcher hosts, all short transformer '
                'chains x parenthesisations, plus seeded deeper trees with redundant parentheses, extra blanks and line breaks at permitted '
                'places: the observed value (verdict / selected lines / output text) must be that of the generating tree under ! > && > || '
                'and left-to-right |; probe primitives log which operands were evaluated (lazy left-to-right); token-level defects must be '
                'rejected unless a recogniser of the documented grammar accepts them.'
                ' Text-matcher expressions are also evaluated over a model that is the output of a program.',
        'note': _TB + '; line breaks only inside parentheses; integer-matcher evaluation order unobservable',
    },
    'C10': {
        'category': 'exploration',
        'technique': 'runtime monitoring: probe records (argv, stdin, cwd) and process-boundary records of every started process compared with the denotation of the PROGRAM syntax; audit count of Popen events',
        'text': 'Exit codes 0..255 x 5 places, program-symbol chains of depth 0..3 x 5 program kinds x 13 contexts, 13 actor forms x 7 stdin kinds, '
                'argument vocabulary, executable forms x phases (1997 core cases) plus seeded compositions: every started process must '
                'receive the argv, stdin bytes and cwd the reference denotation gives, shell commands as one verbatim string, outcome '
                'files/assertions must reflect what the probe emitted, non-zero exit = FAIL in [assert] / HARD_ERROR elsewhere.'
                ' Also: stderr texts (incl. bytes that are not UTF-8) of programs run as instructions; programs terminated by a signal.'
                ' Here-documents in [act]; shell lines ending in escaped white space; odd stderr of the action with a failing exit-code assertion.',
        'note': _TB + '; constructs whose meaning the manual leaves open are not generated (see evidence assumptions)',
    },
    'C15': {
        'category': 'exploration',
        'technique': 'runtime monitoring: tree snapshots and audit events after populating, verdicts of files-/file-matchers on harness-built trees, compared with a reference model over a tree data structure',
        'text': 'All ordered pairs of 16 FILE-SPEC forms (and triples of 6), pairs of dir instruction forms, every (min,max) depth on every '
                'directory of fixed trees with symlinks, matcher pools x selection/prune/quantifiers, plus seeded trees/lists/matchers: the '
                'tree on disk must equal the denoted tree or HARD_ERROR as the model says, nothing may be created outside the populated '
                'directory, absolute and `..` names must be rejected, and every dir-contents / exists verdict must equal the reference.'
                ' Literal cases: failing populations in every phase, names the file system refuses, -with-pruned followed by an operator.',
        'note': _TB + '; symlink loops, `.`/empty name components and unanchored name regexes are not generated',
    },
    'C14': {
        'category': 'exploration',
        'technique': 'runtime monitoring: shadow-state monitor on every text-source object (all accessors, before/after freeze) inside real runs + metamorphic families of assertions that must agree, under a sweep of mem_buff_size',
        'text': 'A corpus of texts with control characters that some line-splitting routines treat as line breaks, CR LF, missing final '
                'newline and multi-byte characters x {file, action output, program output} x identity-denoting transformer wrappers x '
                'mem_buff_size in {1,2,3,len-1,len,len+1,8192} is run through ~47 assertions per case grouped in families that must agree '
                '(M, identity-wrapped M, ( M && M ), conjunct permutations reading through as_str/as_lines/as_file/external program, every '
                'kind of expected-text source for equals). Inside every run M4 compares each observation of each text source with the '
                'first one (value, and division into lines at \\n only).'
                ' Families added: identity inside chains around a text-changing transformer; stderr of programs as expected operand.'
                ' Kind `special-file`: procfs files whose size is reported as 0.',
        'note': _TB + '; one open known finding (CR LF files: universal-newline reading vs raw bytes)',
    },
    'C05': {
        'category': 'exploration',
        'technique': 'runtime monitoring: verdicts and transformer outputs of the real program compared with a reference evaluator written from the manual (polarity batching, bisection on disagreement)',
        'text': 'About 125 matcher primitives and 105 transformer primitives x 64 fixed texts (deterministic core) plus seeded expression-text '
                'pairs: every assertion is emitted in the polarity the reference predicts (so a case must PASS, or FAIL at exactly the one '
                'deliberately wrong line), transformer outputs are read from the kept sandbox and compared byte for byte; three kinds of '
                'tested-text source and five kinds of expected-text source drive all four comparison strategies of equals.'
                ' Also: overlapping / nested -line-nums ranges; equals between files of the same size and modification time.',
        'note': _TB + '; Python re is trusted; run matchers/transformers, control characters (C14) and hostile layout (C06) are left to other checks',
    },
    'C09': {
        'category': 'exploration',
        'technique': 'runtime monitoring: file contents / probe argv / list elements / created file names compared with an independent reader of the documented string syntax (no shlex)',
        'text': 'Every string of <=3 symbols over a 15-symbol hostile alphabet, every split into <=3 fragments, every admissible quoting '
                '(~65000 renderings) followed by every kind of next token; all single and pairs of look-alike here-document body lines; '
                'unterminated quotes/here-documents must be SYNTAX_ERROR located at the instruction; plus seeded longer strings.'
                ' Here-document markers cover the complete documented alphabet.',
        'note': _TB + '; quoted fragments spanning lines, CR/FF/NUL are not generated; two open known findings (mixed-quote token, here-document marker charset)',
    },
    'C11': {
        'category': 'exploration',
        'technique': 'runtime monitoring: history checker — probe records (environment, cwd, argv) and process-boundary records (env, timeout, cwd) at every point of a generated instruction sequence compared with a reference state machine',
        'text': 'Every history of <=2 setting instructions over a 16-letter alphabet and of 3 over a 5-letter alphabet, in every '
                'order-preserving distribution over setup/before-assert/assert/cleanup, with a probe after every instruction and as the '
                'action (4867 histories), plus seeded histories of 4..10 settings: each probe must see the environment set (act / non-act), '
                'current directory, timeout and symbol values that the reference state gives after the preceding instructions.'
                ' Every third case gives the action a transformation of its output; environment sets that have become empty (Exactly started with a minimal environment).',
        'note': _TB + '; real timeouts/kills belong to C19; values never contain braces',
    },
    'C08': {
        'category': 'exploration',
        'technique': 'runtime monitoring: outcome + complete probe trace (argv, stdin, cwd, trees) of generated def/reference programs compared with a reference interpreter; effect monitors on rejected programs',
        'text': '16 definition kinds x 53 reference contexts x 7 placements (matrix), every well-typed chain with 1 and 2 intermediate '
                'definitions over 46 link kinds, all phase pairs/triples x file-order permutations, duplicates incl. every builtin, '
                '(14359 deterministic executions) plus seeded programs: rejected programs must end VALIDATION_ERROR with no effect event; '
                'accepted programs must PASS and every probe record must equal the reference value (concatenation, splicing, absolute '
                'paths, list-in-string joined by single blanks).'
                ' A quarter of the programs use symbol names with letters and digits outside ASCII.',
        'note': _TB + '; constructs the manual leaves open (lists/paths inside file names, non-literal integers) are not generated',
    },
    'C18': {
        'category': 'exploration',
        'technique': 'runtime monitoring: grammar-based fuzzing (labelled mutations of verified-valid uses of every instruction and type) under an escaped-exception monitor, the outcome-table monitor and a location-of-report oracle',
        'text': '268 valid-use templates covering every instruction of every phase and every form of every type, each verified to PASS in the '
                'run itself, mutated by token deletion/duplication/transposition/replacement, truncation at every character, quote and '
                'here-document damage, wrong-type symbols, ill-formed and extreme integers/regexes/replacements/globs/strings, whole-file '
                'forms and extreme structures: no exception may escape, the outcome must be a documented row, never INTERNAL_ERROR or a '
                'traceback, a 65-outcome must name line N and show the source line, and inputs ill-formed by construction must be reported.'
                ' Also: long runs of instruction-less lines of every kind in every phase; self-referential definitions; the instructions of sampled cases contributed by a suite file to three cases.',
        'note': _TB + '; integer tokens from a closed harmless vocabulary (Exactly passes them to eval); three open known findings on extreme inputs (NUL, over-long names, 400-digit timeout)',
    },
}
