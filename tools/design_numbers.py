#!/usr/bin/env python3
"""Prints the table of DESIGN.md section 9.2 from evidence/*.json (quick tier, seed 0) and, if given, a directory
of thorough-tier evidence files: design_numbers.py [THOROUGH_EVIDENCE_DIR]"""
import glob
import json
import os
import sys

HERE = os.path.dirname(os.path.dirname(os.path.abspath(__file__)))


def fmt(n):
    return '{:,}'.format(n).replace(',', ' ')


def top_monitors(mon, pid, k=4):
    own = [(n, v) for n, v in mon.items() if n.startswith(pid.lower() + '.') or n.startswith('m4.') or n.startswith('m5.')
           or n.startswith('m6.')]
    own = [(n, v) for n, v in own if isinstance(v, (int, float)) and v > 0]
    own.sort(key=lambda x: -x[1])
    return ', '.join('%s %s' % (n.split('.', 1)[1].replace('_', ' '), fmt(int(v))) for n, v in own[:k])


def main():
    thorough = {}
    if len(sys.argv) > 1:
        for f in glob.glob(os.path.join(sys.argv[1], '*.json')):
            e = json.load(open(f))
            if e.get('tier') == 'thorough':
                thorough[e['property_id']] = e
    print('| check | tier, seed | evaluations (thorough) | distinct classes | largest monitor counters (quick) |')
    print('|-------|------------|------------------------|------------------|----------------------------------|')
    for f in sorted(glob.glob(os.path.join(HERE, 'evidence', 'C*.json'))):
        e = json.load(open(f))
        pid = e['property_id']
        c = e['coverage']
        t = thorough.get(pid)
        ev = fmt(c['evaluations']) + (' (%s)' % fmt(t['coverage']['evaluations']) if t else '')
        print('| %s | %s, %s | %s | %s | %s |' % (pid, e.get('tier'), e.get('seed'), ev, fmt(c['distinct_nontrivial']),
                                                top_monitors(c.get('monitors') or {}, pid)))


if __name__ == '__main__':
    main()
