#!/usr/bin/env python3
"""Replaces the table of DESIGN.md section 9.3 (from its header line to the line before '## Appendix A') by the
output of tools/seeded_table.py."""
import os
import subprocess
import sys

HERE = os.path.dirname(os.path.dirname(os.path.abspath(__file__)))
p = os.path.join(HERE, 'DESIGN.md')
s = open(p).read()
start = s.index('| seeded change | needs, to manifest | first pass | what was added |')
end = s.index('## Appendix A.')
table = subprocess.run([sys.executable, os.path.join(HERE, 'tools', 'seeded_table.py')], capture_output=True, text=True,
                       check=True).stdout
lines = table.rstrip('\n').split('\n')
summary = lines[-1]
body = '\n'.join(lines[:-1]).rstrip('\n')
s = s[:start] + body + '\n\n' + summary + '\n\n' + '-' * 99 + '\n\n' + s[end:]
open(p, 'w').write(s)
print(summary)
