#!/venv/bin/python
"""Exploration helper: x.py [exactly-args...] < case-text   (case is written to ./t.case in a temp dir)"""
import os, sys, tempfile, subprocess
sys.path.insert(0, os.environ.get('VERIF_REPO', '/repo') + '/src')
import warnings; warnings.filterwarnings('ignore')
from exactly_lib.cli_default.default_main_program_setup import main
d = tempfile.mkdtemp(prefix='x-', dir='/var/tmp')
open(os.path.join(d, 't.case'), 'w').write(sys.stdin.read())
os.chdir(d)
sys.argv = ['exactly'] + sys.argv[1:] + ['t.case']
rc = main()
sys.stdout.flush()
print('--- rc', rc, 'dir', d)
