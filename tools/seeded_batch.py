#!/usr/bin/env python3
"""seeded_batch.py OUT_DIR cNN [cNN ...]: add the deliveries OUT_DIR/cNN/{1..4} of one seeding round as
seeded/<cNN>-<letter>-mut-<file>/ (letters i, j, k, l) and run the property's check against each."""
import os
import re
import subprocess
import sys

HERE = os.path.dirname(os.path.abspath(__file__))


def main():
    out = sys.argv[1]
    letters = os.environ.get('LETTERS', 'ijkl')
    ids = []
    for c in sys.argv[2:]:
        prop = 'C' + c[1:]
        for k in (1, 2, 3, 4):
            d = os.path.join(out, c, str(k))
            pf = os.path.join(d, 'patch.diff')
            if not os.path.isfile(pf):
                continue
            m = re.search(r'^\+\+\+ b/(\S+)', open(pf).read(), re.M)
            slug = os.path.basename(m.group(1)).replace('.py', '').replace('_', '-') if m else 'x'
            ident = '%s-%s-mut-%s' % (c, letters[k - 1], slug)
            needs = ''
            nf = os.path.join(d, 'notes.txt')
            if os.path.isfile(nf):
                txt = [l.strip() for l in open(nf, errors='replace') if l.strip()]
                needs = ' '.join(txt[:2])[:160]
            if os.path.isdir(os.path.join(os.path.dirname(HERE), 'seeded', ident)):
                ids.append(ident)
                continue
            r = subprocess.run([sys.executable, os.path.join(HERE, 'seeded.py'), 'add', d, ident, prop, '--needs', needs],
                               stdout=subprocess.PIPE, stderr=subprocess.STDOUT, universal_newlines=True)
            last = r.stdout.strip().split('\n')[-1]
            print(last[:170])
            if '"confirmed": true' in last:
                ids.append(ident)
    if ids:
        r = subprocess.run([sys.executable, os.path.join(HERE, 'seeded.py'), 'run'] + [i[:5] for i in ids],
                           stdout=subprocess.PIPE, stderr=subprocess.STDOUT, universal_newlines=True)
        for l in r.stdout.split('\n'):
            if 'caught' in l or 'MISSED' in l:
                print(l[:260])


if __name__ == '__main__':
    main()
