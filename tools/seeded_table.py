#!/usr/bin/env python3
"""Prints the markdown table of DESIGN.md section 9.3 from seeded/*/meta.json and the record below of what
happened when each independently seeded change first met the property's check.

FIRST_MISSED: id prefix -> what was added to the check after the miss (every other change was caught at once)."""
import glob
import json
import os

HERE = os.path.dirname(os.path.dirname(os.path.abspath(__file__)))

FIRST_MISSED = {
    'c02-a': 'C02 demands the documented error report in the `--act` x failing-cleanup cell',
    'c02-d': 'preprocessor endings: killed by a signal, exit 255, output on stderr only',
    'c02-f': 'status configured through the suite that applies to the case (beside it / `--suite` / both, the case wins)',
    'c03-a': 'absolute-path spellings of the "missing file" class',
    'c03-b': '`second_usage` spellings (the defect sits in the 2nd+ symbol usage of an instruction) in four defect classes',
    'c03-c': '`indirect_sibling` spellings (a later sibling reference of a string leads to a list / path)',
    'c03-d': '`transformed` spellings (the missing file is a text source that also has a transformation)',
    'c04-b': '`cd_deleted` disturbance (the case ends in a removed directory)',
    'c04-e': 'the action given with a transformation of its output (builtin, `run` trailer, via a program symbol) x every '
             'kind of output, also none',
    'c05-d': 'newline-adding `replace` cases followed by line-oriented transformers',
    'c06-a': 'simple-expression contexts whose operands differ between the original and the transformed model',
    'c06-c': '`identity` in the chain alphabet, every nested parenthesisation of 1-3 step chains',
    'c06-f': 'operator look-alikes (`&`, `|`, `&&&`, ...) at every position of a same-operator chain',
    'c07-d': 'error locations at the end of inclusion chains of depth 3 through sub directories',
    'c08-a': 'part `fan`: one ill-typed symbol reached from the 2nd/3rd reference of a definition',
    'c08-c': 'file-name contexts follow the rule the program itself states (strings built from strings only, transitively); '
             'before, the model called these programs unspecified and skipped them',
    'c08-d': 'part `twice`: one statement referencing the same symbol in two contexts that demand different types, both '
             'orders, direct and through a string',
    'c09-b': 'dedicated cases for five non-ASCII symbol names in every string form',
    'c09-c': 'group quote-follow: an unbalanced quote in here-document / `:>` text with the instruction continuing',
    'c09-d': 'group quoted-option: quoted words that look like options',
    'c11-d': 'the boundary value `timeout = 0` (M2: every later process is started with timeout 0)',
    'c11-e': 'histories whose expansion yields text of the form of a reference (`$` + `{VC}`)',
    'c12-a': 'case kind S: the same path symbol as source and destination of one instruction',
    'c12-c': 'forms `sep-*`: a legal reading reference in an earlier instruction, the creating reference later',
    'c13-b': 'one instruction applied to several texts (multi-text kind)',
    'c14-a': 'long texts (> 100 characters) and families of unequal texts for every pair of source kinds',
    'c14-c': 'deterministic core of multi-byte texts that outgrow the memory buffer while written piecewise',
    'c14-f': 'M4 itself was at fault: its `as_lines` wrapper turned the re-iterable list into an iterator and so hid the '
             'defect from the program under test; it now hands out an equally re-iterable object and reports it; plus '
             'families with the same multi-pass transformer on both sides of `equals`',
    'c15-c': 'literal case: one matcher object applied to several directories by one instruction',
    'c15-e': 'kind `copy-links`: `dir-contents-of` a source holding links at three depths, appends to the copies; '
             'uniform treatment over depth, faithful contents, untouched source',
    'c16-a': 'every double-inclusion tree also with an absolute root argument',
    'c16-f': 'in-line defects: an existing listed file quoted + superfluous argument, unterminated quote',
    'c17-c': 'kind `shared`: suite-level instructions whose arguments refer to symbols every case defines differently '
             '(this also exposed a genuine defect, repaired: `-line-nums` memoisation)',
    'c18-c': 'token kind `range`: one `-line-nums` range of every shape with limits beyond 2**63',
    'c18-d': 'ill-formed regexes that hold a reference to a path symbol (compiled only when the sandbox exists)',
    'c02-h': 'endings `hard_exec_*`: the OS refuses to start a program with ENOEXEC, in each phase',
    'c03-g': '`path_component` spellings: a list / path symbol (or a string built from one) embedded in a file name',
    'c03-h': '`ref_args` spellings: `-existing-*` arguments given where a program symbol is referenced (1 and 2 levels)',
    'c06-h': 'every chain expression also as ONE object applied to three texts by one instruction',
    'c08-g': 'definition kinds with empty list elements (first, middle, last, only) through all contexts',
    'c08-h': 'contexts `*-after-deciding`: the reference follows an operand that already decides the && / || chain',
    'c09-h': 'quoted look-alikes of the markers `:>`, `<<EOF`, `<<`, `-rel` in the quoted-option group',
    'c10-h': '`-existing-*` arguments whose PATH is, or goes through, a symbolic link',
    'c12-g': 'FILE-NAMEs that are exactly one reference to a string symbol, in arguments whose default relativity is home',
    'c12-h': 'kind F: `cd -rel SYMBOL` before / after the creating instruction, run in a fresh interpreter (what an '
             'instruction accepts must not depend on what was read before it)',
    'c14-h': 'family `equals-neg-samesize`: two home files of equal size and equal modification time, different contents '
             '(the first run reported it as caught: that was a false alarm of M4, see section 6)',
    'c15-h': 'literal case: one file named by two spellings in a files-condition',
    'c18-g': 'text special to str.format / % (`{`, `}`, `{0}`, `%s`) in integers, regexes, replacements, names',
    # round 5: single-site mutations in the anchored files (four per property)
    'c04-k': 'every third D1 case is also executed as a member of a suite: no sandbox left, process state restored',
    'c07-j': 'indented escaped act lines (the escape character is the first non-space character)',
    'c07-k': 'blank / comment lines between an instruction description and its instruction',
    'c07-l': 'defective elements of 3-4 lines with the defective token on the last line: all their source lines shown',
    'c09-k': 'several blanks / a tab before the continuation marker, blanks after it',
    'c14-i': 'M4 was at fault again: its Tee turned `writelines` into a loop of `write` calls, so the mutated '
             '`SpooledTextFile.writelines` never ran; it now delegates, and every fourth shard runs without M4 wrappers',
    'c14-j': 'family `concat-stdin`: two-part texts whose second part is written by a sub process, also as expected operand',
    'c14-k': 'texts longer than 2**16 characters',
    'c18-l': 'runs of white-space-only lines (FF, VT, NBSP), also after / inside the gap of an instruction description',
    'c19-i': 'part Z: `timeout = 0` decided by the M2 record (workload of C11 kind zero)',
    # round 6: four more single-site mutations per property, away from the first that comes to mind
    'c04-o': 'ending `hard_act_exec` (the OS cannot start the action): a file result/exit-code holds an exit code',
    'c06-n': 'defect `quoted_operator`: an operator, `!` or parenthesis inside quotes is a string',
    'c07-p': 'empty instruction descriptions',
    'c10-m': 'a third of the cases set act-home apart from home, the files of the same names having other contents',
    'c12-o': 'kind E: destinations that are a relativity alone (empty suffix) denote the root of that relativity',
    'c12-p': 'kind E: path arguments of exists / contents / dir-contents after a cd (default: current directory)',
    'c15-n': 'literal cases: dir-contents-of onto a directory that already holds one of the names (clash = HARD_ERROR)',
    # round 7 (letters q-t; delivered at the very end of the second session, processed in the third): four single-site
    # mutations per property, in helper modules the anchors rely on ("not an ANCHORS file")
    'c01-r': 'stub faults of the symbol-validation step through DEFINITIONS: value refers to an undefined symbol, a name '
             'defined twice, a reference violating its type restriction',
    'c05-t': '`-line-nums` ranges that overlap, lie inside one another or touch, in every listing order; up to four '
             'ranges with bounds anywhere in the text',
    'c07-q': 'kind `actmerge`: [act] declared several times and EXECUTED (source actor): the lines reach the actor in '
             'file order',
    'c07-s': 'inclusion cycles that lead back to the ROOT file, with the located chain (every directive once) demanded',
    'c09-s': 'here-document markers over the complete documented alphabet (every letter, every digit, `_`, `-`)',
    'c12-s': 'kind D: a path symbol that reaches the suffix of a creating argument through 1-4 string definitions',
    'c14-r': 'family `identity-in-chain`: `identity` inside a chain around a transformer that changes the text, where '
             'short cuts for identity transformations are taken (program output, `run`, nested sequences), both sides',
    'c14-s': 'family `equals-stderr`: what a program writes on stderr as the expected operand (caught by M4 as well: '
             '`write_to` of the frozen copy differs from `as_file`)',
    # round 8 (letters u-w, third session): three contrived changes per property - two cooperating sites / carried
    # state / unusual input or a fault at a particular point
    'c02-v': 'ending `fail_then_hard_cleanup`: a failing assertion followed by an error in [cleanup] (the manual: "reported '
             'as an error, and not as a failed test")',
    'c03-v': 'NOT a violation of C03 as stated for a case run alone; it is state carried from one case of a suite run to '
             'the next: caught by C17 (shared suite contents), which also got values that are ill-formed in one case only',
    'c03-w': 'spellings `self_reference`: a definition that refers to the symbol it defines (11 forms)',
    'c04-w': 'disturbance `startdel`: the directory Exactly was started in is removed during the run (this also exposed '
             'an open finding under --keep)',
    'c05-v': 'NOT within the statement of C05 (one text, one expression): state carried by a suite-file instruction from '
             'case to case; caught by C17 (shared `replace` with a symbol in its regex)',
    'c05-w': 'kind `samestat`: `equals` between two files of the same size and modification time',
    'c06-u': 'text-matcher expressions over a model that is the OUTPUT OF A PROGRAM (`-transformed-by run`), which is '
             'cached the first time an operand reads it',
    'c06-v': 'NOT within the statement of C06; state carried by a suite-file instruction (a `|` sequence) from case to '
             'case: C17 got compositions (`|`, `&&`, `||`, `!`) with symbol-dependent operands as shared suite contents',
    'c08-w': 'a quarter of the programs use symbol names with letters and digits outside ASCII',
    'c10-w': 'family `signal`: a program run as an instruction that is terminated by a signal (six signals x phase x form)',
    'c12-w': 'kind L: a leading path-symbol reference followed by a suffix with an absolute part (literal, string symbol, '
             'through a further path definition, copy destination, quoted)',
    'c14-v': 'NOT a violation of C14 as stated (how ONE text is consumed): the output depends on which texts the '
             'transformer object served before; caught by C13 and C05 (one instruction, several texts)',
    'c16-w': 'quoted entries in [cases] / [suites] that hold pattern characters or spaces are plain file names',
    'c17-u': 'listed case files that are symbolic links to files in another directory',
    'c18-v': 'part suite: the instructions of a sampled case are contributed by a suite file to three cases (one parsed '
             'instruction object serves them all); C17 got values that are ill-formed in ALL cases',
    'c18-w': 'extreme structures `self-ref-*`: definitions that refer to the symbol they define, every type x phase',
    'c19-v': 'part F: timeout histories around a FAILING step - [cleanup] runs under the timeout in force at the failure',
    # round 9 (letters x-z, third session): three changes per property - a state of the file system or the environment /
    # a rarely used mode or combination of features / a boundary of size, count, order or encoding
    'c01-x': 'NOT ANSWERED in this session: result/exit-code made unwritable by the action itself, so that storing the '
             'outcome raises outside the guarded step (cleanup skipped, sandbox left); needs a D1 case of C04/C01 whose '
             'action plants a directory at result/exit-code',
    'c01-y': 'outside the reach of the stub executor runs (command-line reporter of --act); the same change is c02-y and is '
             'caught by C02',
    'c01-z': 'a defect of reading the test-case file (instructions after `including` dropped): caught by C07',
    'c02-x': 'every third case is started from a directory that is not an ancestor of the (absolute) case file',
    'c03-x': 'spellings `dangling_link`: names that exist in the home directory only as dangling symbolic links',
    'c03-z': 'caught by C08 (typed references in every context); C03 itself was not extended for it',
    'c04-y': 'part `minimal` (d=3): minimal cases x --keep x --preprocessor x start directory elsewhere',
    'c04-z': 'part `minimal`: cases with nothing to execute in any phase still use (and --keep reports) a sandbox',
    'c06-x': 'meaning of file-matcher primitives on symbolic links: caught by C15',
    'c06-y': 'caught by C15 after it got the literal case `with-pruned-followed-by-operator` (an infix operator after '
             '`-with-pruned FM A` belongs to the enclosing expression)',
    'c07-x': 'shapes `include_symlink_loop*`, `include_dangling_link`',
    'c07-y': 'the act-merge comparison was made exact per line (two glued shell lines had produced the same words)',
    'c08-y': '--act skipping the validation of the skipped phases: the same change is c03-y, caught by C03',
    'c09-x': 'NOT ANSWERED in this session: the case directory reached through a symbolic link / `..` and EXACTLY_HOME '
             'substituted in a string (value of a builtin symbol, not tokenisation)',
    'c09-y': 'argument forms on the act line of the file-interpreter actor: caught by C10 (argv of every actor)',
    'c10-z': 'shell words whose value ends in white space (the line ends with an escaped space / tab)',
    'c11-x': 'NOT ANSWERED in this session: `cd link/..` where link is a symbolic link to a directory (needs symbolic '
             'links in the cd vocabulary and in the reference state machine)',
    'c11-y': 'every third case gives the action a transformation of its output (same process, same environment)',
    'c11-z': 'kind `empty-set`: Exactly started with a minimal environment that the case unsets completely (act / non-act / both)',
    'c12-x': 'kind H: -rel-here in suite and case files named by relative paths with a directory part, from other directories',
    'c12-y': 'kind H: -rel-here in files included two and three levels deep through sub directories',
    'c13-x': 'NOT ANSWERED in this session: a source that answers differently on its second reading (the transformer '
             'must freeze it); needs a program-driven line matcher upstream of a multi-range `-line-nums`',
    'c14-x': 'kind `special-file`: procfs files (size reported as 0, characters when read) through nine consumers x two '
             'buffer sizes',
    'c15-x': 'literal cases: names longer than the file system accepts, in appended and in creating lists',
    'c15-y': 'literal cases: populations that fail at run time in [before-assert], [assert] and [cleanup]',
    'c16-x': 'symbolic links that lie beside their target (file, default suite file, via a glob): only the double '
             'inclusion itself can make the run invalid - the earlier link cases were invalid for a second reason too',
    'c16-z': 'one glob whose matches hold a directory and that directory\'s own exactly.suite',
    'c17-y': 'every seventh tree: the actor is given on the command line (`--actor`) of every way of running',
    'c18-x': 'a reporter crash for unsuccessful cases outside the tree of the root suite: caught by C16 (such trees added)',
    'c18-y': 'a JUnit reporter crash for cases that are not executed: caught by C16',
    'c19-x': 'NOT ANSWERED in this session: the rendering of a -rel-cd program path after a timeout when the current '
             'directory lies outside the sandbox',
    'c19-y': 'places `exists-negated:file-matcher-run`, `contents-negated:text-matcher-run`',
    'c20-x': 'kind `width`: 13 pages x 9 states of COLUMNS / LINES in the environment',
}


def main():
    rows = []
    for f in sorted(glob.glob(os.path.join(HERE, 'seeded', '*', 'meta.json'))):
        m = json.load(open(f))
        sid = m['id']
        short = sid[:5]
        name = sid[6:].replace('-', ' ')
        needs = (m.get('needs_to_manifest') or m.get('needs') or '').replace('|', '/')
        missed = FIRST_MISSED.get(short)
        rows.append((short, name, needs, 'missed' if missed else 'caught', missed or '—'))
    print('| seeded change | needs, to manifest | first pass | what was added |')
    print('|---------------|--------------------|-----------|----------------|')
    for short, name, needs, first, added in rows:
        print('| %s %s | %s | %s | %s |' % (short, name, needs, first, added))
    n = len(rows)
    k = sum(1 for r in rows if r[3] == 'missed')
    print()
    print('%d changes; first pass: %d caught, %d missed; by round (a/b, c/d, e/f, g/h, i-l, m-p, q-t, u-w, x-z): %s' % (
        n, n - k, k, ', '.join('%d/%d' % (sum(1 for r in rows if r[0][4] in ab and r[3] == 'caught'),
                                          sum(1 for r in rows if r[0][4] in ab)) for ab in ('ab', 'cd', 'ef', 'gh', 'ijkl', 'mnop', 'qrst', 'uvw', 'xyz'))))


if __name__ == '__main__':
    main()
