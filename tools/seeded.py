#!/usr/bin/env python3
"""Confirm and store a seeded breaking change, and run the property's check against it.

  tools/seeded.py add SRC_DIR ID PROPERTY [--needs TEXT]   # SRC_DIR holds patch.diff + demo.sh|demo.py (+files)
  tools/seeded.py run [ID-substring ...] [--tier quick]    # run checks against stored seeded changes

Uses scratch copies of /repo under /var/tmp (never edits /repo)."""
import json, os, shutil, subprocess, sys, tempfile, time
VERIF = os.path.dirname(os.path.dirname(os.path.abspath(__file__)))
SEEDED = os.path.join(VERIF, 'seeded')


def scratch_copy():
    d = tempfile.mkdtemp(prefix='vf-seeded-', dir='/var/tmp')
    subprocess.run(['rsync', '-a', '--exclude', '.git', '/repo/', d + '/repo/'], check=True)
    return d


def demo_cmd(dirn):
    if os.path.exists(os.path.join(dirn, 'demo.sh')):
        return ['bash', os.path.join(dirn, 'demo.sh')]
    return ['/venv/bin/python', os.path.join(dirn, 'demo.py')]


def run_demo(dirn, tree):
    try:
        p = subprocess.run(demo_cmd(dirn) + [tree], cwd=dirn, stdout=subprocess.PIPE, stderr=subprocess.STDOUT, timeout=900)
        return p.returncode, p.stdout.decode('utf-8', 'replace')[-600:]
    except subprocess.TimeoutExpired:
        return 'timeout', ''


def add(src, ident, prop, needs):
    dst = os.path.join(SEEDED, ident)
    if os.path.exists(dst):
        shutil.rmtree(dst)
    shutil.copytree(src, dst)
    sc = scratch_copy()
    tree = os.path.join(sc, 'repo')
    meta = {'id': ident, 'property': prop, 'needs_to_manifest': needs, 'ran': []}
    try:
        rc0, out0 = run_demo(dst, tree)
        meta['demo_on_unchanged_tree'] = rc0
        ap = subprocess.run(['patch', '-p1', '--no-backup-if-mismatch', '-i', os.path.join(dst, 'patch.diff')], cwd=tree,
                            stdout=subprocess.PIPE, stderr=subprocess.STDOUT)
        meta['patch_applies'] = ap.returncode == 0
        rc1, out1 = run_demo(dst, tree)
        meta['demo_with_change'] = rc1
        bl = subprocess.run([os.path.join(VERIF, 'tools', 'baseline_check.py'), tree], stdout=subprocess.PIPE)
        meta['pinned_suite_unchanged'] = bl.returncode == 0
        meta['pinned_suite_line'] = bl.stdout.decode().strip().split('\n')[0]
        meta['confirmed'] = bool(rc0 == 0 and rc1 not in (0, 'timeout') and meta['patch_applies'] and meta['pinned_suite_unchanged'])
        meta['ran'].append('demo on clean scratch copy of /repo -> exit %r; patch applied -> demo exit %r; pinned pytest baseline %s'
                           % (rc0, rc1, 'unchanged' if meta['pinned_suite_unchanged'] else 'CHANGED'))
        if not meta['confirmed']:
            meta['demo_output_clean'] = out0
            meta['demo_output_changed'] = out1
    finally:
        shutil.rmtree(sc, ignore_errors=True)
    with open(os.path.join(dst, 'meta.json'), 'w') as f:
        json.dump(meta, f, indent=1)
    print(json.dumps({k: meta[k] for k in ('id', 'property', 'confirmed', 'demo_on_unchanged_tree', 'demo_with_change',
                                           'patch_applies', 'pinned_suite_unchanged')}))
    return meta['confirmed']


def run(sel, tier, props_override=None):
    res = []
    for ident in sorted(os.listdir(SEEDED)):
        dst = os.path.join(SEEDED, ident)
        mp = os.path.join(dst, 'meta.json')
        if not os.path.exists(mp):
            continue
        if sel and not any(s in ident for s in sel):
            continue
        meta = json.load(open(mp))
        if not meta.get('confirmed'):
            print('%-28s not confirmed, skipped' % ident)
            continue
        sc = scratch_copy()
        tree = os.path.join(sc, 'repo')
        try:
            subprocess.run(['patch', '-p1', '--no-backup-if-mismatch', '-i', os.path.join(dst, 'patch.diff')], cwd=tree,
                           stdout=subprocess.DEVNULL, check=True)
            props = props_override or [meta['property']] + meta.get('also_check', [])
            verdicts = {}
            for prop in props:
                t0 = time.time()
                env = dict(os.environ, VERIF_REPO=tree, VERIF_EVIDENCE_DIR=os.path.join(sc, 'ev'))
                p = subprocess.run([os.path.join(VERIF, 'check'), prop, tier], env=env, stdout=subprocess.PIPE,
                                   stderr=subprocess.STDOUT, timeout=7200)
                out = p.stdout.decode('utf-8', 'replace')
                what = [l.strip() for l in out.split('\n') if l.strip().startswith('what:')][:1]
                verdicts[prop] = {0: 'MISSED', 1: 'caught', 2: 'inconclusive'}.get(p.returncode, 'rc=%s' % p.returncode)
                print('%-28s %-4s %-12s %5.0fs %s' % (ident, prop, verdicts[prop], time.time() - t0,
                                                      what[0][:170] if what else ''), flush=True)
            if props_override:
                meta.setdefault('check_results', {}).setdefault(tier, {}).update(verdicts)
                verdicts = meta['check_results'][tier]
            else:
                meta.setdefault('check_results', {})[tier] = verdicts
            meta['ran'] = [r for r in meta['ran'] if not r.startswith('checks(%s)' % tier)] + \
                          ['checks(%s) against a scratch copy with the patch applied (VERIF_REPO): %s' % (tier, verdicts)]
            with open(mp, 'w') as f:
                json.dump(meta, f, indent=1)
            res.append((ident, verdicts))
        finally:
            shutil.rmtree(sc, ignore_errors=True)
    return res


if __name__ == '__main__':
    a = sys.argv[1:]
    if a[0] == 'add':
        needs = ''
        if '--needs' in a:
            needs = a[a.index('--needs') + 1]
        sys.exit(0 if add(a[1], a[2], a[3], needs) else 1)
    tier = 'quick'
    if '--tier' in a:
        tier = a[a.index('--tier') + 1]
        del a[a.index('--tier'):a.index('--tier') + 2]
    props = None
    if '--props' in a:
        props = a[a.index('--props') + 1].split(',')
        del a[a.index('--props'):a.index('--props') + 2]
    run(a[1:], tier, props)
